package main

import (
	"fmt"
	"go/token"
	"math"
	"sort"

	"golang.org/x/tools/go/ssa"
)

// Bounds prover (DESIGN §2.3): facts on the dominator chain, merge-point case
// split, induction over φ-webs.  Sound, not complete.

type Prover struct {
	p     *Program
	fn    *ssa.Function
	lc    *LinCtx
	Stats map[string]int
	trace bool
	// cache of facts per block
	bf map[*ssa.BasicBlock]*Facts
	// recursion guard for the non-negativity side proofs
	nnBusy map[ssa.Instruction]bool
}

func NewProver(p *Program, fn *ssa.Function, lc *LinCtx) *Prover {
	pr := &Prover{p: p, fn: fn, lc: lc, Stats: map[string]int{}, bf: map[*ssa.BasicBlock]*Facts{}, nnBusy: map[ssa.Instruction]bool{}}
	lc.rp = pr.rangeAt
	return pr
}

// rangeAt proves lo ≤ l ≤ hi at the definition of an instruction (no-wrap side condition).
func (pr *Prover) rangeAt(at ssa.Instruction, l Lin, lo, hi int64) bool {
	if pr.nnBusy[at] {
		return false
	}
	pr.nnBusy[at] = true
	defer func() { pr.nnBusy[at] = false }()
	f := pr.factsAt(at.Block())
	if ok, _ := pr.proveIn(&pstate{deep: 1}, at.Block(), f, l.scale(-1).addConst(lo)); !ok {
		return false
	}
	if hi == math.MaxInt64 {
		return true // no upper bound to establish
	}
	ok, _ := pr.proveIn(&pstate{deep: 1}, at.Block(), f, l.addConst(-hi))
	return ok
}

// nn proves l ≥ 0 at the definition of an instruction (for unsigned subtraction).
func (pr *Prover) nn(at ssa.Instruction, l Lin) bool {
	if pr.nnBusy[at] {
		return false
	}
	pr.nnBusy[at] = true
	defer func() { pr.nnBusy[at] = false }()
	ok, _ := pr.proveIn(&pstate{deep: 2}, at.Block(), pr.factsAt(at.Block()), l.scale(-1))
	return ok
}

func (pr *Prover) factsAt(b *ssa.BasicBlock) *Facts {
	if f, ok := pr.bf[b]; ok {
		return f.clone()
	}
	f := &Facts{}
	for _, c := range DomConds(b) {
		pr.lc.CondFacts(c.V, c.Truth, f, pr.nn)
	}
	pr.bf[b] = f
	return f.clone()
}

func (pr *Prover) edgeFacts(pred, succ *ssa.BasicBlock) *Facts {
	f := pr.factsAt(pred)
	if c, ok := edgeCond(pred, succ); ok {
		pr.lc.CondFacts(c.V, c.Truth, f, pr.nn)
	}
	return f
}

type pstate struct {
	hyp      []Lin
	deep     int
	visiting map[*ssa.BasicBlock]bool
}

// Prove: goal ≤ 0 holds whenever control is in block at.
func (pr *Prover) Prove(at *ssa.BasicBlock, goal Lin) (bool, string) {
	ok, how := pr.proveIn(&pstate{}, at, pr.factsAt(at), goal)
	if ok {
		pr.Stats[how]++
	}
	return ok, how
}

// ProveWith: like Prove with extra hypotheses (each ≤ 0) the caller has established.
func (pr *Prover) ProveWith(at *ssa.BasicBlock, extra []Lin, goal Lin) (bool, string) {
	f := pr.factsAt(at)
	f.le = append(f.le, extra...)
	return pr.proveIn(&pstate{}, at, f, goal)
}

func (pr *Prover) allFacts(st *pstate, f *Facts, goal Lin) []Lin {
	all := append([]Lin(nil), f.le...)
	all = append(all, st.hyp...)
	all = append(all, pr.lc.entry...)
	all = append(all, pr.lc.Intrinsic(append(append([]Lin(nil), all...), goal), pr.nn)...)
	return all
}

func (pr *Prover) proveIn(st *pstate, at *ssa.BasicBlock, f *Facts, goal Lin) (bool, string) {
	if goal.isConst() {
		return goal.c <= 0, "const"
	}
	all := pr.allFacts(st, f, goal)
	if entails(all, goal) {
		return true, "facts"
	}
	if len(f.ne) > 0 {
		all = strengthen(all, f.ne)
		if entails(all, goal) {
			return true, "facts+ne"
		}
	}
	if st.deep >= 3 {
		return false, ""
	}
	// lemmas: simple bounds of the φ-atoms involved (sign, and ≤ len of a slice the goal mentions), each by induction
	if st.deep < 2 {
		var lemmas []Lin
		var lens []int
		for _, a := range goal.atoms() {
			if k := pr.lc.keys[a].kind; k == akLen {
				lens = append(lens, a)
			}
		}
		for _, a := range goal.atoms() {
			if pr.lc.keys[a].kind != akVal {
				continue
			}
			phi, ok := pr.lc.keys[a].v.(*ssa.Phi)
			if !ok {
				continue
			}
			cands := []Lin{atomLin(a).scale(-1)}
			for _, ln := range lens {
				cands = append(cands, atomLin(a).add(atomLin(ln), -1))
			}
			for _, cand := range cands {
				if entails(all, cand) {
					continue
				}
				sub := &pstate{hyp: st.hyp, deep: st.deep + 1}
				if pr.inductive(sub, phi, a, cand, &Facts{}) {
					lemmas = append(lemmas, cand)
				}
			}
		}
		if len(lemmas) > 0 {
			all = strengthen(append(all, lemmas...), f.ne)
			if entails(all, goal) {
				return true, "φ-lemma"
			}
			st = &pstate{hyp: append(append([]Lin(nil), st.hyp...), lemmas...), deep: st.deep, visiting: st.visiting}
		}
	}
	// (i) merge point: prove per incoming edge of the nearest dominating join that is not a loop header
	if at != nil {
		var below, belowNe []Lin
		m := at
		for m != nil && len(m.Preds) <= 1 {
			id := m.Idom()
			if id == nil {
				m = nil
				break
			}
			if len(m.Preds) == 1 && m.Preds[0] == id {
				if c, ok := edgeCond(id, m); ok {
					tmp := &Facts{}
					pr.lc.CondFacts(c.V, c.Truth, tmp, pr.nn)
					below = append(below, tmp.le...)
					belowNe = append(belowNe, tmp.ne...)
				}
			}
			m = id
		}
		if m != nil && len(m.Preds) > 1 && !isLoopHeader(m) && !st.visiting[m] {
			if st.visiting == nil {
				st.visiting = map[*ssa.BasicBlock]bool{}
			}
			st.visiting[m] = true
			okAll := true
			for _, p := range m.Preds {
				var hy []Lin
				for _, h := range st.hyp {
					if pr.usableAt(h, p) {
						hy = append(hy, h)
					}
				}
				hy = append(hy, below...)
				ef := pr.edgeFacts(p, m)
				ef.ne = append(ef.ne, belowNe...)
				// φ-nodes of m take the value of this edge: substitute in the goal and the facts gathered below
				sub := func(l Lin) Lin { return pr.substPhis(l, m, p) }
				g2 := sub(goal)
				for i := range hy {
					hy[i] = sub(hy[i])
				}
				for i := range ef.ne {
					ef.ne[i] = sub(ef.ne[i])
				}
				q := &pstate{hyp: hy, deep: st.deep + 1, visiting: st.visiting}
				if ok, _ := pr.proveIn(q, p, ef, g2); !ok {
					okAll = false
					break
				}
			}
			delete(st.visiting, m)
			if okAll {
				return true, "merge-point"
			}
		}
	}
	// (ii) induction over φ
	// candidates from facts mentioning a φ the goal does not
	for _, fct := range all {
		phiAtom := -1
		for _, a := range fct.atoms() {
			if _, inGoal := goal.coef[a]; inGoal {
				continue
			}
			if _, ok := pr.lc.keys[a].v.(*ssa.Phi); ok && pr.lc.keys[a].kind == akVal {
				phiAtom = a
			}
		}
		if phiAtom < 0 {
			continue
		}
		cand := goal.add(fct, -1)
		if _, still := cand.coef[phiAtom]; !still {
			continue
		}
		phi := pr.lc.keys[phiAtom].v.(*ssa.Phi)
		for _, relax := range []int64{0, 1} {
			inv := cand.addConst(-relax)
			if pr.inductive(st, phi, phiAtom, inv, f) {
				all2 := strengthen(append(append([]Lin(nil), all...), inv), f.ne)
				if entails(all2, goal) {
					return true, "fact-φ-induction"
				}
			}
		}
	}
	for _, a := range goal.atoms() {
		if pr.lc.keys[a].kind != akVal {
			continue
		}
		phi, ok := pr.lc.keys[a].v.(*ssa.Phi)
		if !ok {
			continue
		}
		for _, relax := range []int64{0, 1} {
			inv := goal.addConst(-relax)
			if pr.inductive(st, phi, a, inv, f) {
				all2 := strengthen(append(append([]Lin(nil), all...), inv), f.ne)
				if entails(all2, goal) {
					return true, "φ-induction"
				}
			}
		}
	}
	return false, ""
}

// substPhis replaces atoms that are φ-nodes of block m by their operand on the edge from p.
func (pr *Prover) substPhis(l Lin, m, p *ssa.BasicBlock) Lin {
	idx := -1
	for i, q := range m.Preds {
		if q == p {
			idx = i
		}
	}
	if idx < 0 {
		return l
	}
	out := constLin(l.c)
	for a, co := range l.coef {
		k := pr.lc.keys[a]
		if ph, ok := k.v.(*ssa.Phi); ok && ph.Block() == m {
			switch k.kind {
			case akVal:
				out = out.add(pr.lc.linP(ph.Edges[idx], pr.nn), co)
				continue
			case akLen:
				out = out.add(pr.lc.LenLin(ph.Edges[idx]), co)
				continue
			}
		}
		out = out.add(atomLin(a), co)
	}
	return out
}

// leafBlocks returns the definition blocks of the leaves of an atom's value.
func (pr *Prover) leafBlocks(a int) ([]*ssa.BasicBlock, bool) {
	var out []*ssa.BasicBlock
	seen := map[ssa.Value]bool{}
	okAll := true
	var walk func(v ssa.Value, d int)
	walk = func(v ssa.Value, d int) {
		v = pr.lc.res(v)
		if seen[v] || d > 12 {
			return
		}
		seen[v] = true
		switch x := v.(type) {
		case *ssa.Const, *ssa.Parameter, *ssa.FreeVar, *ssa.Global, *ssa.Function, *ssa.Builtin:
			return
		case *ssa.Convert:
			walk(x.X, d+1)
			return
		case *ssa.BinOp:
			walk(x.X, d+1)
			walk(x.Y, d+1)
			return
		case *ssa.UnOp:
			if x.Op != token.MUL && x.Op != token.ARROW {
				walk(x.X, d+1)
				return
			}
		case *ssa.Slice:
			if x.Max == nil {
				walk(x.X, d+1)
				if x.Low != nil {
					walk(x.Low, d+1)
				}
				if x.High != nil {
					walk(x.High, d+1)
				}
				return
			}
		case *ssa.Call:
			if b, ok := x.Call.Value.(*ssa.Builtin); ok && (b.Name() == "len" || b.Name() == "cap") {
				walk(x.Call.Args[0], d+1)
				return
			}
		}
		if in, ok := v.(ssa.Instruction); ok {
			out = append(out, in.Block())
		} else {
			okAll = false
		}
	}
	walk(pr.lc.keys[a].v, 0)
	return out, okAll
}

// usableAt: every leaf of every atom of l is defined in a block dominating b.
func (pr *Prover) usableAt(l Lin, b *ssa.BasicBlock) bool {
	for _, a := range l.atoms() {
		bs, ok := pr.leafBlocks(a)
		if !ok {
			return false
		}
		for _, db := range bs {
			if !db.Dominates(b) {
				return false
			}
		}
	}
	return true
}

type phiLeaf struct {
	v    ssa.Value
	pred *ssa.BasicBlock
	blk  *ssa.BasicBlock
}

// phiWeb collects the φ-nodes of the same source variable reachable through φ operands.
func phiWeb(root *ssa.Phi) (leaves []phiLeaf, web map[*ssa.Phi]bool) {
	web = map[*ssa.Phi]bool{}
	var walk func(p *ssa.Phi)
	walk = func(p *ssa.Phi) {
		if web[p] {
			return
		}
		web[p] = true
		for i, e := range p.Edges {
			if q, ok := e.(*ssa.Phi); ok && q.Comment == root.Comment && q.Comment != "" {
				walk(q)
				continue
			}
			leaves = append(leaves, phiLeaf{e, p.Block().Preds[i], p.Block()})
		}
	}
	walk(root)
	return
}

// inductive: inv (≤ 0, mentioning φ atom a) holds for every operand entering
// the φ-web, assuming inv for every φ of the web whose block dominates the
// incoming edge.  All other atoms must be defined strictly before the φ's block.
func (pr *Prover) inductive(st *pstate, phi *ssa.Phi, a int, inv Lin, useFacts *Facts) bool {
	if pr.inductiveMode(st, phi, a, inv, &Facts{}) {
		return true
	}
	if len(useFacts.ne) == 0 {
		return false
	}
	return pr.inductiveMode(st, phi, a, inv, useFacts)
}

func (pr *Prover) inductiveMode(st *pstate, phi *ssa.Phi, a int, inv Lin, useFacts *Facts) bool {
	leaves, web := phiWeb(phi)
	coef := inv.coef[a]
	for _, o := range inv.atoms() {
		if o == a {
			continue
		}
		bs, ok := pr.leafBlocks(o)
		if !ok {
			return false
		}
		for _, db := range bs {
			for ph := range web {
				if db == ph.Block() || !db.Dominates(ph.Block()) {
					return false
				}
			}
		}
	}
	var webAtoms []int
	var webPhis []*ssa.Phi
	for ph := range web {
		webPhis = append(webPhis, ph)
	}
	sort.Slice(webPhis, func(i, j int) bool { return webPhis[i].Block().Index < webPhis[j].Block().Index })
	for _, ph := range webPhis {
		webAtoms = append(webAtoms, pr.lc.atom(ph, akVal))
	}
	// sentinel: a constant operand may be skipped when the use is dominated by φ ≠ that constant.
	// The property then established is "φ = c0 ∨ inv(φ)", so inv must not be assumed for the
	// web's φ-nodes in the step cases.
	skipLeaf := map[int]bool{}
	for i, lf := range leaves {
		if k, ok := constInt(lf.v); ok {
			for _, ne := range useFacts.ne {
				d := atomLin(a).addConst(-k)
				if linEq(ne, d) || linEq(ne, d.scale(-1)) {
					skipLeaf[i] = true
				}
			}
		}
	}
	noHyp := len(skipLeaf) > 0
	for i, lf := range leaves {
		if skipLeaf[i] {
			continue
		}
		sub := inv.clone()
		delete(sub.coef, a)
		sub = sub.add(pr.lc.linP(lf.v, pr.nn), coef)
		ef := pr.edgeFacts(lf.pred, lf.blk)
		var hyps []Lin
		for _, h := range st.hyp {
			if pr.usableAt(h, lf.pred) {
				hyps = append(hyps, h)
			}
		}
		for i, wa := range webAtoms {
			if noHyp || !webPhis[i].Block().Dominates(lf.pred) {
				continue
			}
			h := inv.clone()
			delete(h.coef, a)
			h = h.add(atomLin(wa), coef)
			hyps = append(hyps, h)
		}
		q := &pstate{hyp: hyps, deep: st.deep + 1}
		ok, _ := pr.proveIn(q, lf.pred, ef, sub)
		if pr.trace {
			fmt.Printf("  inductive φ=%s inv=[%s] leaf=%s pred=%d ok=%v\n", pr.lc.atomName(a), pr.lc.Format(inv), exprString(lf.v), lf.pred.Index, ok)
		}
		if !ok {
			return false
		}
	}
	return true
}

package main

import (
	"fmt"
	"go/constant"
	"go/token"
	"go/types"
	"math/big"
	"sort"
	"strings"

	"golang.org/x/tools/go/ssa"
)

// A small exact-arithmetic normaliser for limb multiplication code (C14.mulhi).
//
// Every SSA value of the function is given its exact mathematical value as a polynomial with integer coefficients over
// atoms, together with an upper bound.  Atoms are 32-bit digits (the hash parameter v is replaced by h·2^32 + l, the two
// modulus parameters are digits by C13.pipeline's call-site clause) and floor terms F32[R] = ⌊R / 2^32⌋ of a polynomial R
// with non-negative coefficients, named by R's canonical text.  The only rewriting rules are exact:
//
//	⌊(Q·2^k + R) / 2^k⌋ = Q + ⌊R / 2^k⌋          (monomials whose coefficient is divisible by 2^k move out)
//	⌊R / 2^k⌋ = 0  when the bound of R is below 2^k
//	x mod 2^k = x − 2^k·⌊x / 2^k⌋
//	⌊x / 2^64⌋ = ⌊⌊x / 2^32⌋ / 2^32⌋
//
// Additions and multiplications are taken as exact only when the bound of the result stays below 2^64 (no wrap-around).
// The function is correct if its result and the specification ⌊v·(nHi·2^32 + nLo) / 2^64⌋ normalise to the same
// polynomial.  Equal normal forms prove equality; different normal forms of two floor expressions do not in general
// prove inequality, so a mismatch whose two sides contain floor atoms of different shapes is reported with both forms.
type poly map[string]*big.Int // monomial (atoms joined by "·", sorted; "" for the constant) → coefficient

type algebra struct {
	ub map[string]*big.Int // atom → upper bound
}

func (a *algebra) atom(name string, ub *big.Int) poly {
	a.ub[name] = ub
	return poly{name: big.NewInt(1)}
}

func pconst(k *big.Int) poly {
	if k.Sign() == 0 {
		return poly{}
	}
	return poly{"": new(big.Int).Set(k)}
}

func padd(x, y poly, sy int64) poly {
	out := poly{}
	for m, c := range x {
		out[m] = new(big.Int).Set(c)
	}
	for m, c := range y {
		t := new(big.Int).Mul(c, big.NewInt(sy))
		if o, ok := out[m]; ok {
			t.Add(t, o)
		}
		if t.Sign() == 0 {
			delete(out, m)
		} else {
			out[m] = t
		}
	}
	return out
}

func mmul(m1, m2 string) string {
	var parts []string
	if m1 != "" {
		parts = append(parts, strings.Split(m1, "·")...)
	}
	if m2 != "" {
		parts = append(parts, strings.Split(m2, "·")...)
	}
	sort.Strings(parts)
	return strings.Join(parts, "·")
}

func pmul(x, y poly) poly {
	out := poly{}
	for m1, c1 := range x {
		for m2, c2 := range y {
			m := mmul(m1, m2)
			t := new(big.Int).Mul(c1, c2)
			if o, ok := out[m]; ok {
				t.Add(t, o)
			}
			if t.Sign() == 0 {
				delete(out, m)
			} else {
				out[m] = t
			}
		}
	}
	return out
}

func (x poly) String() string {
	var ms []string
	for m := range x {
		ms = append(ms, m)
	}
	sort.Strings(ms)
	var parts []string
	for _, m := range ms {
		if m == "" {
			parts = append(parts, x[m].String())
		} else if x[m].Cmp(big.NewInt(1)) == 0 {
			parts = append(parts, m)
		} else {
			parts = append(parts, x[m].String()+"·"+m)
		}
	}
	if len(parts) == 0 {
		return "0"
	}
	return strings.Join(parts, " + ")
}

// bound of a polynomial with non-negative coefficients; nil otherwise
func (a *algebra) bound(x poly) *big.Int {
	total := new(big.Int)
	for m, c := range x {
		if c.Sign() < 0 {
			return nil
		}
		t := new(big.Int).Set(c)
		if m != "" {
			for _, at := range strings.Split(m, "·") {
				ub, ok := a.ub[at]
				if !ok {
					return nil
				}
				t.Mul(t, ub)
			}
		}
		total.Add(total, t)
	}
	return total
}

// floorDiv: ⌊x / 2^k⌋ for k ≤ 32 in one step, larger k in steps of 32
func (a *algebra) floorDiv(x poly, k uint) (poly, error) {
	for k > 32 {
		var err error
		if x, err = a.floorDiv(x, 32); err != nil {
			return nil, err
		}
		k -= 32
	}
	if k == 0 {
		return x, nil
	}
	pow := new(big.Int).Lsh(big.NewInt(1), k)
	q, rem := poly{}, poly{}
	for m, c := range x {
		d, md := new(big.Int).QuoRem(c, pow, new(big.Int))
		if md.Sign() == 0 {
			q[m] = d
		} else {
			rem[m] = new(big.Int).Set(c)
		}
	}
	if len(rem) == 0 {
		return q, nil
	}
	b := a.bound(rem)
	if b == nil {
		return nil, fmt.Errorf("⌊(%s) / 2^%d⌋: the part that does not divide has a negative coefficient", rem, k)
	}
	if b.Cmp(pow) < 0 {
		return q, nil
	}
	name := fmt.Sprintf("F%d[%s]", k, strings.ReplaceAll(rem.String(), "·", "*"))
	return padd(q, a.atom(name, new(big.Int).Rsh(b, k)), 1), nil
}

func (a *algebra) mod(x poly, k uint) (poly, error) {
	f, err := a.floorDiv(x, k)
	if err != nil {
		return nil, err
	}
	return padd(x, pmul(f, pconst(new(big.Int).Lsh(big.NewInt(1), k))), -1), nil
}

type aval struct {
	p  poly
	ub *big.Int
}

var two64 = new(big.Int).Lsh(big.NewInt(1), 64)

// mulhiProof: does fn (hash, nHi, nLo uint64) uint64 return ⌊hash·(nHi·2^32+nLo) / 2^64⌋ for all 32-bit nHi, nLo?
func mulhiProof(fn *ssa.Function, result ssa.Value) (ok bool, got, want string, err error) {
	a := &algebra{ub: map[string]*big.Int{}}
	d32 := new(big.Int).Sub(new(big.Int).Lsh(big.NewInt(1), 32), big.NewInt(1))
	h, l := a.atom("vh", d32), a.atom("vl", d32)
	v := padd(pmul(h, pconst(new(big.Int).Lsh(big.NewInt(1), 32))), l, 1)
	nh, nl := a.atom("nHi", d32), a.atom("nLo", d32)
	n := padd(pmul(nh, pconst(new(big.Int).Lsh(big.NewInt(1), 32))), nl, 1)
	spec, err := a.floorDiv(pmul(v, n), 64)
	if err != nil {
		return false, "", "", err
	}
	memo := map[ssa.Value]aval{}
	width := func(t types.Type) uint {
		if b, ok := t.Underlying().(*types.Basic); ok {
			switch b.Kind() {
			case types.Uint8:
				return 8
			case types.Uint16:
				return 16
			case types.Uint32:
				return 32
			case types.Uint64, types.Uint, types.Uintptr:
				return 64
			}
		}
		return 0
	}
	var eval func(x ssa.Value) (aval, error)
	eval = func(x ssa.Value) (aval, error) {
		if r, ok := memo[x]; ok {
			return r, nil
		}
		var res aval
		switch y := x.(type) {
		case *ssa.Parameter:
			switch y {
			case fn.Params[0]:
				res = aval{v, new(big.Int).Sub(two64, big.NewInt(1))}
			case fn.Params[1]:
				res = aval{nh, d32}
			case fn.Params[2]:
				res = aval{nl, d32}
			default:
				return res, fmt.Errorf("unexpected parameter %s", y.Name())
			}
		case *ssa.Const:
			if y.Value == nil || y.Value.Kind() != constant.Int {
				return res, fmt.Errorf("non-integer constant")
			}
			k, _ := new(big.Int).SetString(y.Value.ExactString(), 10)
			if k == nil || k.Sign() < 0 {
				return res, fmt.Errorf("negative constant")
			}
			res = aval{pconst(k), k}
		case *ssa.Convert:
			in, e := eval(y.X)
			if e != nil {
				return res, e
			}
			wf, wt := width(y.X.Type()), width(y.Type())
			if wf == 0 || wt == 0 {
				return res, fmt.Errorf("conversion to or from a signed or non-integer type at %s", y.Name())
			}
			res = in
			if wt < wf {
				lim := new(big.Int).Lsh(big.NewInt(1), wt)
				if in.ub.Cmp(lim) >= 0 {
					m, e := a.mod(in.p, wt)
					if e != nil {
						return res, e
					}
					res = aval{m, new(big.Int).Sub(lim, big.NewInt(1))}
				}
			}
		case *ssa.BinOp:
			lx, e := eval(y.X)
			if e != nil {
				return res, e
			}
			ly, e := eval(y.Y)
			if e != nil {
				return res, e
			}
			constK := func() (uint, bool) {
				c, ok := y.Y.(*ssa.Const)
				if !ok || c.Value == nil {
					return 0, false
				}
				k, ok := constant.Uint64Val(constant.ToInt(c.Value))
				return uint(k), ok && k < 128
			}
			pow2 := func() (uint, bool) { // Y = 2^k
				c, ok := y.Y.(*ssa.Const)
				if !ok || c.Value == nil {
					return 0, false
				}
				k, _ := new(big.Int).SetString(constant.ToInt(c.Value).ExactString(), 10)
				if k == nil || k.Sign() <= 0 || new(big.Int).And(k, new(big.Int).Sub(k, big.NewInt(1))).Sign() != 0 {
					return 0, false
				}
				return uint(k.BitLen() - 1), true
			}
			switch y.Op {
			case token.ADD:
				res = aval{padd(lx.p, ly.p, 1), new(big.Int).Add(lx.ub, ly.ub)}
			case token.MUL:
				res = aval{pmul(lx.p, ly.p), new(big.Int).Mul(lx.ub, ly.ub)}
			case token.SHR:
				k, ok := constK()
				if !ok {
					return res, fmt.Errorf("shift by a non-constant")
				}
				q, e := a.floorDiv(lx.p, k)
				if e != nil {
					return res, e
				}
				res = aval{q, new(big.Int).Rsh(lx.ub, k)}
			case token.SHL:
				k, ok := constK()
				if !ok {
					return res, fmt.Errorf("shift by a non-constant")
				}
				res = aval{pmul(lx.p, pconst(new(big.Int).Lsh(big.NewInt(1), k))), new(big.Int).Lsh(lx.ub, k)}
			case token.QUO:
				k, ok := pow2()
				if !ok {
					return res, fmt.Errorf("division by something other than a constant power of two")
				}
				q, e := a.floorDiv(lx.p, k)
				if e != nil {
					return res, e
				}
				res = aval{q, new(big.Int).Rsh(lx.ub, k)}
			case token.REM:
				k, ok := pow2()
				if !ok {
					return res, fmt.Errorf("remainder by something other than a constant power of two")
				}
				m, e := a.mod(lx.p, k)
				if e != nil {
					return res, e
				}
				res = aval{m, new(big.Int).Sub(new(big.Int).Lsh(big.NewInt(1), k), big.NewInt(1))}
			case token.AND:
				c, ok := y.Y.(*ssa.Const)
				if !ok || c.Value == nil {
					return res, fmt.Errorf("mask by a non-constant")
				}
				mk, _ := new(big.Int).SetString(constant.ToInt(c.Value).ExactString(), 10)
				mk1 := new(big.Int).Add(mk, big.NewInt(1))
				if mk.Sign() <= 0 || new(big.Int).And(mk1, mk).Sign() != 0 {
					return res, fmt.Errorf("mask that is not 2^k − 1")
				}
				m, e := a.mod(lx.p, uint(mk1.BitLen()-1))
				if e != nil {
					return res, e
				}
				res = aval{m, mk}
			default:
				return res, fmt.Errorf("operator %s", y.Op)
			}
			if res.ub.Cmp(two64) >= 0 {
				return res, fmt.Errorf("%s %s may exceed 2^64 − 1 (bound %s): the 64-bit operation wraps around", y.Name(), y.Op, res.ub)
			}
		default:
			return res, fmt.Errorf("unsupported instruction %T", x)
		}
		memo[x] = res
		return res, nil
	}
	r, err := eval(result)
	if err != nil {
		return false, "", spec.String(), err
	}
	return r.p.String() == spec.String(), r.p.String(), spec.String(), nil
}

package main

import (
	"fmt"
	"go/token"
	"regexp"
	"sort"
	"strings"

	"golang.org/x/tools/go/ssa"
)

// Rejection vocabulary (shared by C01, C05, C06; C11.accepts predates it and has its own form).
//
// A decoder may refuse an input only for the reasons its format gives.  Every branch of the decoder
// one of whose outcomes can only end in an error return is a *rejection test*; what its condition
// looks at is reduced to a set of leaves (len(decoded), decoded[33], call bytes.Equal, …), and each
// leaf must match the decoder's allow-list.  An extra rejection test — a length limit on the string,
// a white-list of network bytes — refuses some string the encoder can produce, so the rule is a
// necessary condition of the round-trip clauses; it says nothing about the tests that are present
// being right (the guard / checksum rules do that).

// rejectingBlocks: blocks from which every path ends in a return whose error result is a definite error.
func rejectingBlocks(fn *ssa.Function) map[*ssa.BasicBlock]bool {
	ei := errResultIndex(fn)
	rej := map[*ssa.BasicBlock]bool{}
	if ei < 0 {
		return rej
	}
	for changed := true; changed; {
		changed = false
		for _, b := range fn.Blocks {
			if rej[b] {
				continue
			}
			switch t := lastInstr(b).(type) {
			case *ssa.Return:
				if ei < len(t.Results) && isErrorValue(t.Results[ei]) {
					rej[b], changed = true, true
				} else if ei < len(t.Results) {
					// err returned from a callee under err != nil (or a merged err of an expanded helper, likewise)
					if ex, ok := t.Results[ei].(*ssa.Extract); ok && knownNonNil(b, ex) {
						rej[b], changed = true, true
					} else if ph, ok := t.Results[ei].(*ssa.Phi); ok && knownNonNil(b, ph) {
						rej[b], changed = true, true
					}
				}
			case *ssa.Panic:
			default:
				if len(b.Succs) > 0 {
					all := true
					for _, s := range b.Succs {
						if !rej[s] {
							all = false
						}
					}
					if all {
						rej[b], changed = true, true
					}
				}
			}
		}
	}
	return rej
}

// rejectingVia: the edge p→b can only end in an error return — b is rejecting, or b is a merge block whose branch is
// decided by the value this edge feeds into its φ (threadedSucc) and the selected edge is rejecting in turn.  With a
// helper expanded in place, `res, err = nil, ErrX; break L` reaches the caller's `if err != nil { return nil, err }`
// through such a merge.
func rejectingVia(rej map[*ssa.BasicBlock]bool, p, b *ssa.BasicBlock, depth int) bool {
	if rej[b] {
		return true
	}
	if depth > 6 {
		return false
	}
	// pass through straight-line blocks
	if len(b.Succs) == 1 {
		return rejectingVia(rej, b, b.Succs[0], depth+1)
	}
	if only := threadedSucc(b, p); only != nil {
		return rejectingVia(rej, b, only, depth+1)
	}
	return false
}

// condLeaves reduces a condition to what it looks at.
func condLeaves(v ssa.Value) []string {
	set := map[string]bool{}
	seen := map[ssa.Value]bool{}
	var root func(v ssa.Value) string
	root = func(v ssa.Value) string {
		switch x := v.(type) {
		case *ssa.Call:
			return "call " + calleeName(&x.Call)
		case *ssa.Extract:
			if c, ok := x.Tuple.(*ssa.Call); ok {
				return fmt.Sprintf("call %s#%d", calleeName(&c.Call), x.Index)
			}
		case *ssa.Parameter:
			return "param " + x.Name()
		case *ssa.Slice:
			return root(x.X)
		case *ssa.Phi:
			var parts []string
			for _, e := range x.Edges {
				parts = append(parts, root(e))
			}
			sort.Strings(parts)
			return strings.Join(dedup(parts), "|")
		case *ssa.UnOp:
			if x.Op == token.MUL {
				if g, ok := x.X.(*ssa.Global); ok {
					return "global " + g.Name()
				}
				if f, _, ok := fieldLoad(x); ok {
					return "field " + f.Name()
				}
			}
		case *ssa.Convert:
			return root(x.X)
		case *ssa.ChangeType:
			return root(x.X)
		}
		return exprString(v)
	}
	var walk func(v ssa.Value)
	walk = func(v ssa.Value) {
		if v == nil || seen[v] {
			return
		}
		seen[v] = true
		switch x := v.(type) {
		case *ssa.Const:
		case *ssa.BinOp:
			walk(x.X)
			walk(x.Y)
		case *ssa.Convert:
			walk(x.X)
		case *ssa.ChangeType:
			walk(x.X)
		case *ssa.Phi:
			for _, e := range x.Edges {
				walk(e)
			}
		case *ssa.UnOp:
			if x.Op == token.MUL {
				if ia, ok := x.X.(*ssa.IndexAddr); ok {
					if k, isK := constInt(ia.Index); isK {
						set[fmt.Sprintf("%s[%d]", root(ia.X), k)] = true
					} else {
						set[root(ia.X)+"[·]"] = true
					}
					return
				}
				set[root(x)] = true
				return
			}
			walk(x.X)
		case *ssa.Index:
			if k, isK := constInt(x.Index); isK {
				set[fmt.Sprintf("%s[%d]", root(x.X), k)] = true
			} else {
				set[root(x.X)+"[·]"] = true
			}
		case *ssa.Call:
			if isBuiltin(&x.Call, "len") {
				set["len("+root(x.Call.Args[0])+")"] = true
				return
			}
			set[root(x)] = true
		case *ssa.Extract:
			set[root(x)] = true
		case *ssa.Parameter:
			set[root(x)] = true
		default:
			set[root(v)] = true
		}
	}
	walk(v)
	var out []string
	for k := range set {
		out = append(out, k)
	}
	sort.Strings(out)
	return out
}

// rejectionVocabulary adds one obligation per rejection test of fn.
// approvedChecksumConds: the branch conditions the checksum rule recognised as the 4-byte checksum comparison of fn.
func approvedChecksumConds(p *Program, fn *ssa.Function) map[ssa.Value]bool {
	out := map[ssa.Value]bool{}
	for _, res := range check4ByteChecksum(p, fn) {
		if res.ok && res.cond.V != nil {
			out[res.cond.V] = true
		}
	}
	return out
}

func rejectionVocabulary(p *Program, r *Report, rule string, fn *ssa.Function, allow []string, what string, approved ...map[ssa.Value]bool) int {
	var res []*regexp.Regexp
	for _, a := range allow {
		res = append(res, regexp.MustCompile("^(?:"+a+")$"))
	}
	rej := rejectingBlocks(fn)
	n := 0
	for _, b := range fn.Blocks {
		iff, ok := lastInstr(b).(*ssa.If)
		if !ok || rej[b] {
			continue
		}
		if !rejectingVia(rej, b, b.Succs[0], 0) && !rejectingVia(rej, b, b.Succs[1], 0) {
			continue
		}
		// the merged `if err != nil` behind an expanded helper is not a test of its own: every edge into it is decided
		if ph := mergedErrTest(b); ph {
			continue
		}
		n++
		isApproved := false
		for _, m := range approved {
			if m[iff.Cond] {
				isApproved = true
			}
		}
		if isApproved {
			r.Add(rule, FnName(fn), fmt.Sprintf("rejection test #%d looks only at %s", n, what), iff.Cond.Pos(), true, "this is the checksum comparison the checksum rule recognised")
			continue
		}
		var foreign []string
		leaves := condLeaves(iff.Cond)
		for _, l := range leaves {
			okL := false
			for _, re := range res {
				if re.MatchString(l) {
					okL = true
				}
			}
			if !okL {
				foreign = append(foreign, l)
			}
		}
		r.Add(rule, FnName(fn), fmt.Sprintf("rejection test #%d looks only at %s", n, what), iff.Cond.Pos(), len(foreign) == 0,
			fmt.Sprintf("condition %s reads {%s}; outside the format's reasons to refuse: {%s}", exprString(iff.Cond), strings.Join(leaves, ", "), strings.Join(foreign, ", ")))
	}
	return n
}

// valueParamDeps: the parameters of the enclosing function a value is computed from (backward slice over operands;
// control dependence is not followed).
func valueParamDeps(v ssa.Value) map[*ssa.Parameter]bool {
	out := map[*ssa.Parameter]bool{}
	seen := map[ssa.Value]bool{}
	var walk func(v ssa.Value)
	walk = func(v ssa.Value) {
		if v == nil || seen[v] {
			return
		}
		seen[v] = true
		if pa, ok := v.(*ssa.Parameter); ok {
			out[pa] = true
			return
		}
		in, ok := v.(ssa.Instruction)
		if !ok {
			return
		}
		for _, op := range in.Operands(nil) {
			if op != nil && *op != nil {
				walk(*op)
			}
		}
		// a load of a local: what was stored there
		if u, ok := v.(*ssa.UnOp); ok && u.Op == token.MUL {
			if al, ok := u.X.(*ssa.Alloc); ok {
				for _, ref := range *al.Referrers() {
					if st, ok := ref.(*ssa.Store); ok && st.Addr == ssa.Value(al) {
						walk(st.Val)
					}
				}
			}
		}
	}
	walk(v)
	return out
}

// refusesOnlyFor: every rejection test of fn is computed from the allowed parameters alone.  A constructor that
// refuses for a reason taken from another argument refuses some value the decoder accepts (or the format can carry),
// which breaks the round trip from that side.
func refusesOnlyFor(p *Program, r *Report, rule string, fn *ssa.Function, allowed func(*ssa.Parameter) bool, what string) int {
	rej := rejectingBlocks(fn)
	n := 0
	for _, b := range fn.Blocks {
		iff, ok := lastInstr(b).(*ssa.If)
		if !ok || rej[b] || (!rejectingVia(rej, b, b.Succs[0], 0) && !rejectingVia(rej, b, b.Succs[1], 0)) || mergedErrTest(b) {
			continue
		}
		n++
		var foreign []string
		for pa := range valueParamDeps(iff.Cond) {
			if !allowed(pa) {
				foreign = append(foreign, pa.Name())
			}
		}
		sort.Strings(foreign)
		r.Add(rule, FnName(fn), fmt.Sprintf("refusal #%d is decided by %s alone", n, what), iff.Cond.Pos(), len(foreign) == 0,
			fmt.Sprintf("condition %s; other arguments it reads: {%s}", exprString(iff.Cond), strings.Join(foreign, ", ")))
	}
	// a refusal that is not a branch of this function: an error handed on from a callee that was given other arguments
	ei := errResultIndex(fn)
	for _, ret := range returnsOf(fn) {
		if ei < 0 || ei >= len(ret.Results) {
			continue
		}
		ex, ok := ret.Results[ei].(*ssa.Extract)
		if !ok {
			continue
		}
		call, ok := ex.Tuple.(*ssa.Call)
		if !ok {
			continue
		}
		n++
		var foreign []string
		for pa := range valueParamDeps(call) {
			if !allowed(pa) {
				foreign = append(foreign, pa.Name())
			}
		}
		sort.Strings(foreign)
		r.Add(rule, FnName(fn), fmt.Sprintf("refusal #%d (an error handed on from %s) is decided by %s alone", n, calleeName(&call.Call), what), ret.Pos(), len(foreign) == 0,
			fmt.Sprintf("other arguments the callee is given: {%s}", strings.Join(foreign, ", ")))
	}
	return n
}

// mergedErrTest: b branches on a φ of b all of whose operands are constants or definite errors — the test is decided
// on every incoming edge (threadedSucc), so it adds no reason of its own to refuse.
func mergedErrTest(b *ssa.BasicBlock) bool {
	if len(b.Preds) < 2 {
		return false
	}
	for _, p := range b.Preds {
		if threadedSucc(b, p) == nil {
			return false
		}
	}
	return true
}

// refusalsOutside (round 7): a constructor's refusals that look only at a quantity with a specified valid range fire
// only OUTSIDE that range.  For every rejection test whose condition reads nothing but the given value (and
// constants): the facts "this edge rejects" together with "the value is in its valid range" must be contradictory.
// `seedLen%4 != 0` refuses 17 bytes, `P >= 32` refuses the largest legal P — both pass every test of the suite.
// value: the SSA value whose range is specified (len(seed) as a call, a parameter …); lo/hi: inclusive bounds (hi < 0:
// none).
func refusalsOutside(p *Program, r *Report, rule string, fn *ssa.Function, isValue func(v ssa.Value) bool, lin func(lc *LinCtx) (Lin, bool), lo, hi int64, what string) int {
	return refusalsOutsideRej(p, r, rule, fn, rejectingBlocks(fn), isValue, lin, lo, hi, what)
}

// refusalsOutsideRej: the same with the refusing blocks given by the caller (a fluent builder refuses by storing an error
// in itself, not by returning one).
func refusalsOutsideRej(p *Program, r *Report, rule string, fn *ssa.Function, rej map[*ssa.BasicBlock]bool, isValue func(v ssa.Value) bool, lin func(lc *LinCtx) (Lin, bool), lo, hi int64, what string) int {
	lc := NewLinCtx(p, fn)
	val, okV := lin(lc)
	if !okV {
		return 0
	}
	onlyValue := func(v ssa.Value) bool {
		ok := true
		hit := false // the condition must actually read the value: a flag φ of constants does not
		seen := map[ssa.Value]bool{}
		var walk func(v ssa.Value)
		walk = func(v ssa.Value) {
			if v == nil || seen[v] || !ok {
				return
			}
			seen[v] = true
			if isValue(v) {
				hit = true
				return
			}
			switch x := v.(type) {
			case *ssa.Const:
			case *ssa.BinOp:
				walk(x.X)
				walk(x.Y)
			case *ssa.UnOp:
				if x.Op == token.MUL {
					ok = false
					return
				}
				walk(x.X)
			case *ssa.Convert:
				walk(x.X)
			case *ssa.ChangeType:
				walk(x.X)
			case *ssa.Phi:
				for _, e := range x.Edges {
					walk(e)
				}
			default:
				ok = false
			}
		}
		walk(v)
		return ok && hit
	}
	// a condition that is a bool φ (`a || b` as a switch case) holds along one of its edges: each alternative carries
	// the conditions of the path into the φ plus the edge's own value
	var alternatives func(v ssa.Value, truth bool, at *ssa.BasicBlock, depth int) [][]Cond
	alternatives = func(v ssa.Value, truth bool, at *ssa.BasicBlock, depth int) [][]Cond {
		ph, isPhi := v.(*ssa.Phi)
		if !isPhi || depth > 3 {
			return [][]Cond{append(MustCondsAtBlock(fn, at), Cond{v, truth, at})}
		}
		var out [][]Cond
		for i, e := range ph.Edges {
			pb := ph.Block().Preds[i]
			if k, isK := constBool(e); isK {
				if k != truth {
					continue
				}
				cs := MustCondsAtBlock(fn, pb)
				if ec, ok := edgeCond(pb, ph.Block()); ok {
					cs = append(cs, ec)
				}
				out = append(out, cs)
				continue
			}
			for _, alt := range alternatives(e, truth, pb, depth+1) {
				if ec, ok := edgeCond(pb, ph.Block()); ok {
					alt = append(alt, ec)
				}
				out = append(out, alt)
			}
		}
		return out
	}
	n := 0
	for _, b := range fn.Blocks {
		iff, isIf := lastInstr(b).(*ssa.If)
		if !isIf || rej[b] || mergedErrTest(b) {
			continue
		}
		for k := 0; k < 2; k++ {
			if !rejectingVia(rej, b, b.Succs[k], 0) || rejectingVia(rej, b, b.Succs[1-k], 0) {
				continue
			}
			if !onlyValue(iff.Cond) {
				continue
			}
			n++
			outside := true
			for _, conds := range alternatives(iff.Cond, k == 0, b, 0) {
				conds = append(conds, MustCondsAtBlock(fn, b)...)
				f := lc.FactsOf(conds)
				f.le = append(f.le, val.scale(-1).addConst(lo)) // lo − value ≤ 0
				if hi >= 0 {
					f.le = append(f.le, val.addConst(-hi)) // value − hi ≤ 0
				}
				// the facts contain value ≥ lo; deriving value ≤ lo − 1 from them means they are contradictory
				if !lc.Entails(f, val.addConst(-(lo - 1))) {
					outside = false
				}
			}
			r.Add(rule, FnName(fn), fmt.Sprintf("the refusal on %s fires only outside %s", exprString(iff.Cond), what), iff.Cond.Pos(), outside,
				"a value inside the specified range is refused on this edge")
		}
	}
	return n
}

package main

import (
	"fmt"
	"go/constant"
	"go/token"
	"go/types"
	"sort"
	"strings"

	"golang.org/x/tools/go/ssa"
)

// C17 — amounts.  What is decided is the *shape* of the conversions, each of which is a necessary condition of the
// statement: the rounding helper rounds half away from zero on both sides of zero (a finite decision over the sign
// classes of its argument), NewAmount refuses NaN and both infinities and rounds the single product f·1e8, ToUnit is
// the single IEEE division of the exactly converted integer by an exact power of ten, Format prints that quotient with
// 'f', precision −(u+8), 64 bits, followed by the unit's label, the labels are the specified ones, MulF64 rounds the
// single product.  The number-theoretic content (that one correctly rounded operation suffices for every amount up to
// 2.1e15) is NOT decided: it is arithmetic over float64, not a fact about the program text.

func init() { register("C17", checkC17) }

type c17 struct {
	p       *Program
	r       *Report
	rounder map[*ssa.Function]bool
}

func checkC17(p *Program, r *Report) {
	r.Explain = "C17.round: every return of the rounding helper is int(math.Round(f)) — an exact rounding, half away from zero; the int(f ± 0.5) forms are classified over the sign classes their " +
		"dominating comparisons leave and then refused all the same, because the addition rounds a second time (defect F15). C17.create: every accepting return of NewAmount is the helper applied to the single product f·1e8 and lies behind the " +
		"rejection of NaN, +Inf and −Inf. C17.unit: ToUnit is float64(a) / math.Pow10(u+8) — one division of exact operands — and ToBCH is that with u = 0. C17.format: Format is " +
		"FormatFloat(ToUnit(u), 'f', −(u+8), 64) + \" \" + u.String(), String is Format(AmountBCH). C17.labels: the six named units have the specified exponents and labels and every other " +
		"unit prints \"1e<N> BCH\". C17.mul: MulF64 is the helper applied to the single product float64(a)·f. C17.const: SatoshiPerBitcent, SatoshiPerBitcoin, MaxSatoshi. C17.shared: no mutable " +
		"package-level state in amount.go. Not decided: that one correctly rounded float64 operation gives the nearest satoshi / the exact decimal for every amount up to the cap " +
		"(arithmetic over IEEE-754 values); strconv's shortest-decimal printing; monotonicity as such."
	r.Trusted = []string{"math.Pow10 exact for |n| ≤ 22", "strconv.FormatFloat/FormatInt", "math.IsNaN/IsInf/Round/Copysign", "IEEE-754 correct rounding of * and /"}
	sharedStateRule(p, r, NewEffects(p), "C17.shared", []string{"amount.go"})
	c := &c17{p: p, r: r, rounder: map[*ssa.Function]bool{}}
	c.consts()
	c.create()
	toUnit := c.unit()
	unitStr := c.labels()
	c.format(toUnit, unitStr)
	c.mul()
	// floors guard against vacuity only (a one-return math.Round helper is one instance)
	r.Floor("C17.round", 1)
	r.Floor("C17.create", 4)
	r.Floor("C17.unit", 2)
	r.Floor("C17.format", 4)
	r.Floor("C17.labels", 8)
	r.Floor("C17.mul", 1)
	r.Floor("C17.const", 3)
}

// ---- constants

func (c *c17) consts() {
	tp := c.p.TPkg("")
	if tp == nil || tp.Types == nil {
		c.r.Unresolved("C17.const", "root package")
		return
	}
	want := []struct {
		name string
		val  constant.Value
	}{
		{"SatoshiPerBitcent", constant.MakeInt64(1000000)},
		{"SatoshiPerBitcoin", constant.MakeInt64(100000000)},
		{"MaxSatoshi", constant.MakeInt64(2100000000000000)},
	}
	for _, w := range want {
		obj, _ := tp.Types.Scope().Lookup(w.name).(*types.Const)
		if obj == nil {
			c.r.Unresolved("C17.const", "constant "+w.name)
			continue
		}
		ok := constant.Compare(constant.ToFloat(obj.Val()), token.EQL, constant.ToFloat(w.val))
		c.r.Add("C17.const", "package bchutil", fmt.Sprintf("%s == %s", w.name, w.val.ExactString()), obj.Pos(), ok, "value "+obj.Val().ExactString())
	}
}

// ---- rounding

func isFloat64(t types.Type) bool {
	b, ok := t.Underlying().(*types.Basic)
	return ok && b.Kind() == types.Float64
}

func floatConst(v ssa.Value) (constant.Value, bool) {
	k, ok := v.(*ssa.Const)
	if !ok || k.Value == nil {
		return nil, false
	}
	switch k.Value.Kind() {
	case constant.Float, constant.Int:
		return constant.ToFloat(k.Value), true
	}
	return nil, false
}

func floatConstIs(v ssa.Value, f float64) bool {
	k, ok := floatConst(v)
	return ok && constant.Compare(k, token.EQL, constant.MakeFloat64(f))
}

func stdCall(v ssa.Value, full string) (*ssa.Call, bool) {
	call, ok := v.(*ssa.Call)
	if !ok {
		return nil, false
	}
	cal := call.Call.StaticCallee()
	if cal == nil || cal.String() != full {
		return nil, false
	}
	return call, true
}

// roundForm classifies e as a function of x: "minus" x−0.5, "plus" x+0.5, "round" math.Round(x), "copysign" x+Copysign(0.5,x).
func roundForm(e, x ssa.Value) string {
	if call, ok := stdCall(e, "math.Round"); ok && call.Call.Args[0] == x {
		return "round"
	}
	bo, ok := e.(*ssa.BinOp)
	if !ok {
		return ""
	}
	switch bo.Op {
	case token.SUB:
		if bo.X == x && floatConstIs(bo.Y, 0.5) {
			return "minus"
		}
		if bo.X == x && floatConstIs(bo.Y, -0.5) {
			return "plus"
		}
	case token.ADD:
		a, b := bo.X, bo.Y
		if b == x {
			a, b = b, a
		}
		if a != x {
			return ""
		}
		if floatConstIs(b, 0.5) {
			return "plus"
		}
		if floatConstIs(b, -0.5) {
			return "minus"
		}
		if call, ok := stdCall(b, "math.Copysign"); ok && floatConstIs(call.Call.Args[0], 0.5) && call.Call.Args[1] == x {
			return "copysign"
		}
	}
	return ""
}

// signClasses: which of (negative, zero, positive) values of x are compatible with the condition.  ok=false: the
// condition is not a comparison of x with a constant (nor math.Signbit(x)).
func signClasses(cd Cond, x ssa.Value) (keep [3]bool, ok bool) {
	v, truth := cd.V, cd.Truth
	for {
		if u, isU := v.(*ssa.UnOp); isU && u.Op == token.NOT {
			v, truth = u.X, !truth
			continue
		}
		break
	}
	if call, isC := stdCall(v, "math.Signbit"); isC && call.Call.Args[0] == x {
		// Signbit: negative values and −0
		if truth {
			return [3]bool{true, true, false}, true
		}
		return [3]bool{false, true, true}, true
	}
	bo, isB := v.(*ssa.BinOp)
	if !isB {
		return keep, false
	}
	op := bo.Op
	var k constant.Value
	if bo.X == x {
		kk, isK := floatConst(bo.Y)
		if !isK {
			return keep, false
		}
		k = kk
	} else if bo.Y == x {
		kk, isK := floatConst(bo.X)
		if !isK {
			return keep, false
		}
		k = kk
		switch op { // c op x  ==  x op' c
		case token.LSS:
			op = token.GTR
		case token.LEQ:
			op = token.GEQ
		case token.GTR:
			op = token.LSS
		case token.GEQ:
			op = token.LEQ
		}
	} else {
		return keep, false
	}
	sgn := constant.Sign(k)
	// can the comparison x op k evaluate to `truth` for some x of the class?
	// classes: 0 = (−inf,0), 1 = {0}, 2 = (0,+inf)
	// sample points, each described by (position relative to k, sign): enough because classes and truth sets are intervals
	type pt struct{ relK, sg int }
	var pts []pt
	switch {
	case sgn < 0:
		pts = []pt{{-1, -1}, {0, -1}, {1, -1}, {1, 0}, {1, 1}}
	case sgn == 0:
		pts = []pt{{-1, -1}, {0, 0}, {1, 1}}
	default:
		pts = []pt{{-1, -1}, {-1, 0}, {-1, 1}, {0, 1}, {1, 1}}
	}
	can := func(class int, want bool) bool {
		for _, q := range pts {
			if q.sg != class-1 {
				continue
			}
			var res bool
			switch op {
			case token.LSS:
				res = q.relK < 0
			case token.LEQ:
				res = q.relK <= 0
			case token.GTR:
				res = q.relK > 0
			case token.GEQ:
				res = q.relK >= 0
			case token.EQL:
				res = q.relK == 0
			case token.NEQ:
				res = q.relK != 0
			}
			if res == want {
				return true
			}
		}
		return false
	}
	switch op {
	case token.LSS, token.LEQ, token.GTR, token.GEQ, token.EQL, token.NEQ:
	default:
		return keep, false
	}
	for cl := 0; cl < 3; cl++ {
		keep[cl] = can(cl, truth)
	}
	return keep, true
}

// roundHelperOK files the C17.round obligations for h (once) and reports whether h is a rounding helper at all.
func (c *c17) roundHelper(h *ssa.Function) bool {
	if done, seen := c.rounder[h]; seen {
		return done
	}
	c.rounder[h] = false
	if len(h.Params) != 1 || !isFloat64(h.Params[0].Type()) || h.Signature.Results().Len() != 1 || len(h.Blocks) == 0 {
		return false
	}
	if _, isInt := intBasic(h.Signature.Results().At(0).Type()); !isInt {
		return false
	}
	x := ssa.Value(h.Params[0])
	type path struct {
		val   ssa.Value
		conds []Cond
		pos   token.Pos
	}
	var paths []path
	for _, ret := range returnsOf(h) {
		rv := ret.Results[0]
		if ph, ok := rv.(*ssa.Phi); ok && ph.Block() == ret.Block() {
			for i, e := range ph.Edges {
				pred := ph.Block().Preds[i]
				cs := DomConds(pred)
				if ec, ok := edgeCond(pred, ph.Block()); ok {
					cs = append(cs, ec)
				}
				paths = append(paths, path{e, cs, ret.Pos()})
			}
			continue
		}
		paths = append(paths, path{rv, DomConds(ret.Block()), ret.Pos()})
	}
	c.r.Analysed(FnName(h))
	c.rounder[h] = true
	for i, pa := range paths {
		what := fmt.Sprintf("return path #%d rounds half away from zero", i+1)
		cv, ok := pa.val.(*ssa.Convert)
		if !ok || !isFloat64(cv.X.Type()) {
			c.r.Undecided("C17.round", FnName(h), what, pa.pos, "the returned value is not an integer conversion of a float64 expression")
			continue
		}
		form := roundForm(cv.X, x)
		if form == "" {
			c.r.Undecided("C17.round", FnName(h), what, pa.pos, "the converted expression "+exprString(cv.X)+" is not f − 0.5, f + 0.5, math.Round(f) or f + math.Copysign(0.5, f)")
			continue
		}
		keep := [3]bool{true, true, true}
		und := ""
		for _, cd := range pa.conds {
			k, ok := signClasses(cd, x)
			if !ok {
				und = exprString(cd.V)
				break
			}
			for j := range keep {
				keep[j] = keep[j] && k[j]
			}
		}
		if und != "" {
			c.r.Undecided("C17.round", FnName(h), what, pa.pos, "a branch on "+und+" (not a comparison of the argument with a constant) selects this return")
			continue
		}
		good := true
		how := "math.Round: exact, half away from zero"
		if keep[0] && !(form == "minus" || form == "round" || form == "copysign") {
			good, how = false, "negative arguments reach int(f + 0.5): −0.6 would round to 0"
		}
		if keep[2] && !(form == "plus" || form == "round" || form == "copysign") {
			good, how = false, "positive arguments reach int(f − 0.5): 0.6 would round to 0"
		}
		if good && form != "round" {
			// defect F15: adding one half is itself a floating-point operation.  0.49999999999999994 + 0.5 rounds to 1.0, so
			// a product just below one half becomes 1 satoshi, and for odd integers in [2^52, 2^53) f + 0.5 is a tie that
			// rounds to the even neighbour.  Only an exact rounding (math.Round) gives "the nearest whole number".
			good, how = false, "int(f ± 0.5) rounds twice: 0.49999999999999994 + 0.5 == 1.0 in float64, so a value below one half becomes 1; 2^52+1 becomes 2^52+2"
		}
		c.r.Add("C17.round", FnName(h), what, pa.pos, good, how)
	}
	return true
}

// rounded: v = round(base) through a helper or math.Round; returns base.
func (c *c17) rounded(v ssa.Value) (ssa.Value, bool) {
	for {
		if ct, ok := v.(*ssa.ChangeType); ok {
			v = ct.X
			continue
		}
		break
	}
	if call, ok := v.(*ssa.Call); ok {
		if h := call.Call.StaticCallee(); h != nil && c.p.InRepo(h) && len(call.Call.Args) == 1 && c.roundHelper(h) {
			return call.Call.Args[0], true
		}
	}
	if cv, ok := v.(*ssa.Convert); ok && isFloat64(cv.X.Type()) {
		if call, ok := stdCall(cv.X, "math.Round"); ok {
			return call.Call.Args[0], true
		}
	}
	return nil, false
}

// product: v is the single float64 multiplication a·b (either order).
func product(v ssa.Value) (ssa.Value, ssa.Value, bool) {
	bo, ok := v.(*ssa.BinOp)
	if !ok || bo.Op != token.MUL || !isFloat64(bo.Type()) {
		return nil, nil, false
	}
	return bo.X, bo.Y, true
}

func exactFloatOfInt(v ssa.Value, src ssa.Value) bool {
	cv, ok := v.(*ssa.Convert)
	return ok && isFloat64(cv.Type()) && stripChange(cv.X) == src
}

func (c *c17) create() {
	fn := c.p.Func("", "NewAmount")
	if fn == nil || len(fn.Params) != 1 || !isFloat64(fn.Params[0].Type()) {
		c.r.Unresolved("C17.create", "NewAmount(float64)")
		return
	}
	c.r.Analysed(FnName(fn))
	f := ssa.Value(fn.Params[0])
	aps := acceptPoints(fn)
	if len(aps) == 0 {
		c.r.Unresolved("C17.create", "an accepting return of NewAmount")
		return
	}
	for i, ap := range aps {
		what := fmt.Sprintf("accepting return #%d", i+1)
		// value
		ok, how := false, ""
		rv := ap.Ret.Results[0]
		if ap.Pred != nil {
			if ph, isP := rv.(*ssa.Phi); isP && ph.Block() == ap.Block {
				for j, pb := range ap.Block.Preds {
					if pb == ap.Pred {
						rv = ph.Edges[j]
					}
				}
			}
		}
		if base, isR := c.rounded(rv); isR {
			if a, b, isM := product(base); isM && ((a == f && floatConstIs(b, 1e8)) || (b == f && floatConstIs(a, 1e8))) {
				ok, how = true, "round(f · 1e8): one multiplication, one rounding"
			} else {
				how = "the rounded value is " + exprString(base) + ", not the single product f · 1e8"
			}
		} else {
			how = "the result " + exprString(rv) + " is not the rounding helper (or math.Round) applied to a float64"
		}
		c.r.Add("C17.create", FnName(fn), what+" is the satoshi count nearest to the single product f·1e8", ap.Ret.Pos(), ok, how)
		// rejections
		nan, pinf, ninf := false, false, false
		for _, cd := range MustConds(fn, ap) {
			v, truth := cd.V, cd.Truth
			for {
				if u, isU := v.(*ssa.UnOp); isU && u.Op == token.NOT {
					v, truth = u.X, !truth
					continue
				}
				break
			}
			if call, isC := stdCall(v, "math.IsNaN"); isC && call.Call.Args[0] == f && !truth {
				nan = true
			}
			if call, isC := stdCall(v, "math.IsInf"); isC && call.Call.Args[0] == f && !truth {
				if k, isK := constInt(call.Call.Args[1]); isK {
					if k >= 0 {
						pinf = true
					}
					if k <= 0 {
						ninf = true
					}
				}
			}
			if bo, isB := v.(*ssa.BinOp); isB && bo.X == f && bo.Y == f {
				if (bo.Op == token.NEQ && !truth) || (bo.Op == token.EQL && truth) {
					nan = true
				}
			}
		}
		c.r.Add("C17.create", FnName(fn), what+" lies behind the rejection of NaN", ap.Ret.Pos(), nan, "math.IsNaN(f) is false on every path")
		c.r.Add("C17.create", FnName(fn), what+" lies behind the rejection of +Inf", ap.Ret.Pos(), pinf, "math.IsInf(f, +1 or 0) is false on every path")
		c.r.Add("C17.create", FnName(fn), what+" lies behind the rejection of −Inf", ap.Ret.Pos(), ninf, "math.IsInf(f, −1 or 0) is false on every path")
	}
}

// ---- unit conversion

// quotientOf: v == float64(a) / 10^(u+8) as ONE division: float64(a) / math.Pow10(int(u)+8) (u nil: the constant unit 0).
func (c *c17) quotientOf(fn *ssa.Function, v, a, u ssa.Value, toUnit *ssa.Function) (bool, string) {
	if call, ok := v.(*ssa.Call); ok && toUnit != nil && call.Call.StaticCallee() == toUnit && len(call.Call.Args) == 2 && call.Call.Args[0] == a {
		if u != nil && call.Call.Args[1] == u {
			return true, "ToUnit(a, u)"
		}
		if k, isK := constInt(call.Call.Args[1]); u == nil && isK && k == 0 {
			return true, "ToUnit(a, 0)"
		}
		return false, "ToUnit is called with another unit"
	}
	bo, ok := v.(*ssa.BinOp)
	if !ok || bo.Op != token.QUO || !isFloat64(bo.Type()) {
		return false, exprString(v) + " is not a float64 division"
	}
	if !exactFloatOfInt(bo.X, a) {
		return false, "the dividend " + exprString(bo.X) + " is not float64(a)"
	}
	if u == nil && floatConstIs(bo.Y, 1e8) {
		return true, "float64(a) / 1e8"
	}
	call, ok := stdCall(bo.Y, "math.Pow10")
	if !ok {
		return false, "the divisor " + exprString(bo.Y) + " is not math.Pow10(…)"
	}
	lc := NewLinCtx(c.p, fn)
	got := lc.Lin(call.Call.Args[0])
	want := constLin(8)
	if u != nil {
		want = lc.Lin(u).addConst(8)
	}
	if !linEq(got, want) {
		return false, "the exponent " + lc.Format(got) + " is not u + 8"
	}
	return true, "float64(a) / math.Pow10(u + 8)"
}

func (c *c17) unit() *ssa.Function {
	fn := c.p.Func("", "(Amount).ToUnit")
	if fn == nil || len(fn.Params) != 2 {
		c.r.Unresolved("C17.unit", "(Amount).ToUnit")
		return nil
	}
	c.r.Analysed(FnName(fn))
	// Correct rounding needs ONE operation on EXACT operands.  10^e is exact in float64 only for 0 ≤ e ≤ 22, so the
	// quotient form a / 10^e is right for e = u+8 ≥ 0, and for e < 0 the product a · 10^(−e) is (defect F16: dividing
	// by math.Pow10 of a negative exponent divides by an inexact 0.1, 0.001, …).  Each return is checked against the
	// sign of u+8 that the conditions on its path establish.
	lcu := NewLinCtx(c.p, fn)
	e := lcu.Lin(fn.Params[1]).addConst(8)
	for i, ret := range returnsOf(fn) {
		what := fmt.Sprintf("return #%d is the single correctly rounded operation float64(a) ÷ 10^(u+8)", i+1)
		facts := lcu.FactsOf(MustCondsAtBlock(fn, ret.Block()))
		nonneg := lcu.Entails(facts, e.scale(-1)) // −(u+8) ≤ 0
		nonpos := lcu.Entails(facts, e)           // u+8 ≤ 0
		v := ret.Results[0]
		bo, isB := v.(*ssa.BinOp)
		if !isB || !isFloat64(bo.Type()) {
			c.r.Add("C17.unit", FnName(fn), what, ret.Pos(), false, exprString(v)+" is not a float64 quotient or product")
			continue
		}
		okA := exactFloatOfInt(bo.X, fn.Params[0]) || (bo.Op == token.MUL && exactFloatOfInt(bo.Y, fn.Params[0]))
		pw := bo.Y
		if bo.Op == token.MUL && exactFloatOfInt(bo.Y, fn.Params[0]) {
			pw = bo.X
		}
		call, isP := stdCall(pw, "math.Pow10")
		if !okA || !isP {
			c.r.Add("C17.unit", FnName(fn), what, ret.Pos(), false, exprString(v)+" does not combine float64(a) with math.Pow10(…)")
			continue
		}
		got := lcu.Lin(call.Call.Args[0])
		if un, isU := call.Call.Args[0].(*ssa.UnOp); isU && un.Op == token.SUB {
			got = lcu.Lin(un.X).scale(-1)
		}
		switch {
		case bo.Op == token.QUO && linEq(got, e):
			c.r.Add("C17.unit", FnName(fn), what, ret.Pos(), nonneg,
				map[bool]string{true: "float64(a) / 10^(u+8) where u+8 ≥ 0: an exact divisor", false: "float64(a) / math.Pow10(u+8) is reached with u+8 possibly negative: the divisor is then an inexact 10^-k (Amount(2099999999999999).ToUnit(-9) = 20999999999999988, correctly rounded 20999999999999990)"}[nonneg])
		case bo.Op == token.MUL && linEq(got, e.scale(-1)):
			c.r.Add("C17.unit", FnName(fn), what, ret.Pos(), nonpos,
				map[bool]string{true: "float64(a) · 10^-(u+8) where u+8 ≤ 0: an exact factor", false: "float64(a) · math.Pow10(-(u+8)) is reached with u+8 possibly positive: the factor is then an inexact 10^-k"}[nonpos])
		default:
			c.r.Add("C17.unit", FnName(fn), what, ret.Pos(), false, "exponent "+lcu.Format(got)+" with operator "+bo.Op.String()+" is neither a ÷ 10^(u+8) nor a · 10^-(u+8)")
		}
	}
	if b := c.p.Func("", "(Amount).ToBCH"); b != nil {
		c.r.Analysed(FnName(b))
		for i, ret := range returnsOf(b) {
			ok, how := c.quotientOf(b, ret.Results[0], b.Params[0], nil, fn)
			if len(DomConds(ret.Block())) > 0 && ok {
				ok, how = false, "the quotient is returned only on some paths (a branch selects this return)"
			}
			c.r.Add("C17.unit", FnName(b), fmt.Sprintf("return #%d is the conversion to unit 0", i+1), ret.Pos(), ok, how)
		}
	} else {
		c.r.Unresolved("C17.unit", "(Amount).ToBCH")
	}
	return fn
}

// ---- labels

var c17Units = []struct {
	name  string
	exp   int64
	label string
}{
	{"AmountMegaBCH", 6, "MBCH"}, {"AmountKiloBCH", 3, "kBCH"}, {"AmountBCH", 0, "BCH"},
	{"AmountMilliBCH", -3, "mBCH"}, {"AmountMicroBCH", -6, "μBCH"}, {"AmountSatoshi", -8, "Satoshi"},
}

// catPieces flattens a string concatenation in order.
func catPieces(v ssa.Value) []ssa.Value {
	if bo, ok := v.(*ssa.BinOp); ok && bo.Op == token.ADD {
		if b, isB := bo.Type().Underlying().(*types.Basic); isB && b.Info()&types.IsString != 0 {
			return append(catPieces(bo.X), catPieces(bo.Y)...)
		}
	}
	return []ssa.Value{v}
}

func stringConst(v ssa.Value) (string, bool) {
	k, ok := v.(*ssa.Const)
	if !ok || k.Value == nil || k.Value.Kind() != constant.String {
		return "", false
	}
	return constant.StringVal(k.Value), true
}

// walkUnit follows (AmountUnit).String for the concrete unit value k: every branch must compare the parameter with a
// constant.  Returns the block reached that ends in a Return.
func walkUnit(fn *ssa.Function, k int64) (*ssa.Return, string) {
	u := ssa.Value(fn.Params[0])
	b := fn.Blocks[0]
	for steps := 0; steps < 4*len(fn.Blocks)+4; steps++ {
		switch t := lastInstr(b).(type) {
		case *ssa.Return:
			return t, ""
		case *ssa.Jump:
			b = b.Succs[0]
		case *ssa.If:
			v, neg := t.Cond, false
			for {
				if un, ok := v.(*ssa.UnOp); ok && un.Op == token.NOT {
					v, neg = un.X, !neg
					continue
				}
				break
			}
			bo, ok := v.(*ssa.BinOp)
			if !ok {
				return nil, "a branch on " + exprString(t.Cond)
			}
			var c int64
			var isK bool
			x, op := bo.X, bo.Op
			if stripChange(bo.X) == u {
				c, isK = constInt(bo.Y)
			} else if stripChange(bo.Y) == u {
				c, isK = constInt(bo.X)
				x = bo.Y
				switch op {
				case token.LSS:
					op = token.GTR
				case token.LEQ:
					op = token.GEQ
				case token.GTR:
					op = token.LSS
				case token.GEQ:
					op = token.LEQ
				}
			}
			_ = x
			if !isK {
				return nil, "a branch on " + exprString(t.Cond) + " (not a comparison of the unit with a constant)"
			}
			var res bool
			switch op {
			case token.EQL:
				res = k == c
			case token.NEQ:
				res = k != c
			case token.LSS:
				res = k < c
			case token.LEQ:
				res = k <= c
			case token.GTR:
				res = k > c
			case token.GEQ:
				res = k >= c
			default:
				return nil, "a branch on " + exprString(t.Cond)
			}
			if res != neg {
				b = b.Succs[0]
			} else {
				b = b.Succs[1]
			}
		default:
			return nil, "control flow not understood"
		}
	}
	return nil, "the walk does not terminate"
}

func (c *c17) labels() *ssa.Function {
	tp := c.p.TPkg("")
	fn := c.p.Func("", "(AmountUnit).String")
	if fn == nil || tp == nil || len(fn.Params) != 1 {
		c.r.Unresolved("C17.labels", "(AmountUnit).String")
		return nil
	}
	c.r.Analysed(FnName(fn))
	name := FnName(fn)
	// the walk below is only meaningful if nothing but the parameter decides the result
	for _, b := range fn.Blocks {
		for _, in := range b.Instrs {
			switch in.(type) {
			case *ssa.Store, *ssa.MapUpdate, *ssa.Go, *ssa.Defer, *ssa.Send:
				c.r.Undecided("C17.labels", name, "the labelling function is a pure decision over its argument", in.Pos(), "it contains "+in.String())
				return fn
			}
		}
	}
	for _, w := range c17Units {
		obj, _ := tp.Types.Scope().Lookup(w.name).(*types.Const)
		if obj == nil {
			c.r.Unresolved("C17.labels", "constant "+w.name)
			continue
		}
		v, exact := constant.Int64Val(obj.Val())
		c.r.Add("C17.labels", "package bchutil", fmt.Sprintf("%s is the exponent %d", w.name, w.exp), obj.Pos(), exact && v == w.exp, "value "+obj.Val().ExactString())
		ret, why := walkUnit(fn, w.exp)
		what := fmt.Sprintf("unit %d is labelled %q", w.exp, w.label)
		if ret == nil {
			c.r.Undecided("C17.labels", name, what, fn.Pos(), why)
			continue
		}
		s, isS := stringConst(ret.Results[0])
		c.r.Add("C17.labels", name, what, ret.Pos(), isS && s == w.label, "returns "+exprString(ret.Results[0]))
	}
	// every other exponent: "1e" + decimal(u) + " BCH"; all unlisted values take the same path when every branch is an
	// equality test, which the walk for two representatives (one beyond each end, one in a gap) confirms
	var rets []*ssa.Return
	und := ""
	for _, k := range []int64{-12, -7, 1, 12, 1 << 40} {
		ret, why := walkUnit(fn, k)
		if ret == nil {
			und = why
			break
		}
		rets = append(rets, ret)
	}
	what := "every other unit prints \"1e<N> BCH\""
	if und != "" {
		c.r.Undecided("C17.labels", name, what, fn.Pos(), und)
		return fn
	}
	ok, how := true, "\"1e\" + FormatInt(int64(u), 10) + \" BCH\""
	for _, ret := range rets {
		ps := catPieces(ret.Results[0])
		good := len(ps) == 3
		if good {
			a, okA := stringConst(ps[0])
			z, okZ := stringConst(ps[2])
			good = okA && okZ && a == "1e" && z == " BCH" && c.decimalOf(ps[1], fn.Params[0])
		}
		if !good {
			ok, how = false, "returns "+exprString(ret.Results[0])
		}
	}
	c.r.Add("C17.labels", name, what, rets[0].Pos(), ok, how)
	return fn
}

// decimalOf: v is the base-10 rendering of the integer u.
func (c *c17) decimalOf(v ssa.Value, u ssa.Value) bool {
	strip := func(x ssa.Value) ssa.Value {
		for {
			switch t := x.(type) {
			case *ssa.ChangeType:
				x = t.X
				continue
			case *ssa.Convert:
				if _, ok := intBasic(t.Type()); ok {
					if _, ok := intBasic(t.X.Type()); ok && NewLinCtx(c.p, u.Parent()).bitsOf(t.Type()) >= NewLinCtx(c.p, u.Parent()).bitsOf(t.X.Type()) {
						x = t.X
						continue
					}
				}
			}
			return x
		}
	}
	if call, ok := stdCall(v, "strconv.FormatInt"); ok {
		k, isK := constInt(call.Call.Args[1])
		return isK && k == 10 && strip(call.Call.Args[0]) == u
	}
	if call, ok := stdCall(v, "strconv.Itoa"); ok {
		return strip(call.Call.Args[0]) == u
	}
	return false
}

// ---- formatting

func (c *c17) format(toUnit, unitStr *ssa.Function) {
	fn := c.p.Func("", "(Amount).Format")
	if fn == nil || len(fn.Params) != 2 {
		c.r.Unresolved("C17.format", "(Amount).Format")
		return
	}
	c.r.Analysed(FnName(fn))
	name := FnName(fn)
	a, u := ssa.Value(fn.Params[0]), ssa.Value(fn.Params[1])
	lc := NewLinCtx(c.p, fn)
	for i, ret := range returnsOf(fn) {
		pre := fmt.Sprintf("return #%d: ", i+1)
		if len(DomConds(ret.Block())) > 0 {
			c.r.Undecided("C17.format", name, pre+"one formatting rule for every amount and unit", ret.Pos(), "a branch selects this return")
			continue
		}
		ps := catPieces(ret.Results[0])
		// expand a concatenation kept in a local (units := " " + u.String())
		var flat []ssa.Value
		for _, x := range ps {
			flat = append(flat, catPieces(x)...)
		}
		ps = flat
		var ff *ssa.Call
		if len(ps) >= 1 {
			ff, _ = stdCall(ps[0], "strconv.FormatFloat")
		}
		if ff == nil || len(ps) != 3 {
			c.r.Undecided("C17.format", name, pre+"the text is FormatFloat(…) + \" \" + label", ret.Pos(), "the result is "+exprString(ret.Results[0]))
			continue
		}
		okV, howV := c.quotientOf(fn, ff.Call.Args[0], a, u, toUnit)
		c.r.Add("C17.format", name, pre+"the number printed is ToUnit(u)", ret.Pos(), okV, howV)
		fb, isF := constInt(ff.Call.Args[1])
		bits, isB := constInt(ff.Call.Args[3])
		c.r.Add("C17.format", name, pre+"printed in 'f' format from 64 bits", ret.Pos(), isF && fb == 'f' && isB && bits == 64, fmt.Sprintf("format %q, bit size %d", rune(fb), bits))
		prec := ff.Call.Args[2]
		var got Lin
		if un, ok := prec.(*ssa.UnOp); ok && un.Op == token.SUB {
			got = lc.Lin(un.X).scale(-1)
		} else {
			got = lc.Lin(prec)
		}
		want := lc.Lin(u).scale(-1).addConst(-8)
		c.r.Add("C17.format", name, pre+"with precision −(u+8): the digits down to one satoshi", ret.Pos(), linEq(got, want), "precision "+lc.Format(got))
		sp, isS := stringConst(ps[1])
		lab, isL := ps[2].(*ssa.Call)
		okL := isS && sp == " " && isL && unitStr != nil && lab.Call.StaticCallee() == unitStr && len(lab.Call.Args) == 1 && lab.Call.Args[0] == u
		c.r.Add("C17.format", name, pre+"followed by a blank and the unit's label", ret.Pos(), okL, exprString(ps[1])+" + "+exprString(ps[2]))
	}
	if s := c.p.Func("", "(Amount).String"); s != nil {
		c.r.Analysed(FnName(s))
		for i, ret := range returnsOf(s) {
			call, ok := ret.Results[0].(*ssa.Call)
			good := ok && call.Call.StaticCallee() == fn && call.Call.Args[0] == ssa.Value(s.Params[0]) && len(DomConds(ret.Block())) == 0
			if good {
				k, isK := constInt(call.Call.Args[1])
				good = isK && k == 0
			}
			c.r.Add("C17.format", FnName(s), fmt.Sprintf("return #%d is Format(AmountBCH)", i+1), ret.Pos(), good, exprString(ret.Results[0]))
		}
	} else {
		c.r.Unresolved("C17.format", "(Amount).String")
	}
}

// ---- multiplication

func (c *c17) mul() {
	fn := c.p.Func("", "(Amount).MulF64")
	if fn == nil || len(fn.Params) != 2 {
		c.r.Unresolved("C17.mul", "(Amount).MulF64")
		return
	}
	c.r.Analysed(FnName(fn))
	a, f := ssa.Value(fn.Params[0]), ssa.Value(fn.Params[1])
	for i, ret := range returnsOf(fn) {
		ok, how := false, ""
		if len(DomConds(ret.Block())) > 0 {
			how = "a branch selects this return"
		} else if base, isR := c.rounded(ret.Results[0]); isR {
			x, y, isM := product(base)
			if isM && ((exactFloatOfInt(x, a) && y == f) || (exactFloatOfInt(y, a) && x == f)) {
				ok, how = true, "round(float64(a) · f)"
			} else {
				how = "the rounded value is " + exprString(base) + ", not the single product float64(a) · f"
			}
		} else {
			how = "the result " + exprString(ret.Results[0]) + " is not the rounding helper applied to a float64"
		}
		c.r.Add("C17.mul", FnName(fn), fmt.Sprintf("return #%d is the rounded single product", i+1), ret.Pos(), ok, how)
	}
}

var _ = sort.Strings
var _ = strings.Contains

package main

import (
	"fmt"
	"go/ast"
	"go/token"
	"go/types"
	"sort"
	"strings"

	"golang.org/x/tools/go/ssa"
)

func init() { register("C02", checkC02) }

// eqChain is a classification: a chain of ≥ 2 blocks comparing the same tag
// value with distinct constants, linked by their "not equal" edges (the
// lowering of a tagged switch or of an if / else-if chain).
type eqChain struct {
	fn      *ssa.Function
	tag     ssa.Value
	blocks  []*ssa.BasicBlock
	consts  []int64
	noMatch *ssa.BasicBlock // successor taken when no constant matched
	last    *ssa.BasicBlock
}

func eqCompare(b *ssa.BasicBlock) (tag ssa.Value, k int64, matchSucc, elseSucc *ssa.BasicBlock, ok bool) {
	iff, isIf := lastInstr(b).(*ssa.If)
	if !isIf {
		return
	}
	bo, isB := iff.Cond.(*ssa.BinOp)
	if !isB || (bo.Op != token.EQL && bo.Op != token.NEQ) {
		return
	}
	var c int64
	var t ssa.Value
	if kk, isK := constInt(bo.Y); isK {
		c, t = kk, bo.X
	} else if kk, isK := constInt(bo.X); isK {
		c, t = kk, bo.Y
	} else {
		return
	}
	if _, isInt := intBasic(t.Type()); !isInt {
		return
	}
	if bo.Op == token.EQL {
		return t, c, b.Succs[0], b.Succs[1], true
	}
	return t, c, b.Succs[1], b.Succs[0], true
}

// onlyCompare: the block contains nothing but the comparison feeding its If
// (and pure value computations), so it is an intermediate link of a chain.
func onlyCompare(b *ssa.BasicBlock) bool {
	for _, in := range b.Instrs {
		switch in.(type) {
		case *ssa.BinOp, *ssa.If, *ssa.UnOp, *ssa.Convert, *ssa.IndexAddr, *ssa.FieldAddr, *ssa.Phi, *ssa.DebugRef:
		default:
			return false
		}
	}
	return true
}

func findEqChains(fn *ssa.Function) []eqChain {
	var out []eqChain
	inChain := map[*ssa.BasicBlock]bool{}
	for _, b := range fn.Blocks {
		if inChain[b] {
			continue
		}
		tag, k, _, els, ok := eqCompare(b)
		if !ok {
			continue
		}
		// b must be the head: no predecessor is a link comparing the same tag that falls through to b
		head := true
		for _, p := range b.Preds {
			if pt, _, _, pe, pok := eqCompare(p); pok && sameValue(pt, tag) && pe == b {
				head = false
			}
		}
		if !head {
			continue
		}
		ch := eqChain{fn: fn, tag: tag, blocks: []*ssa.BasicBlock{b}, consts: []int64{k}}
		cur := els
		last := b
		for {
			t2, k2, _, e2, ok2 := eqCompare(cur)
			if !ok2 || !sameValue(t2, tag) || len(cur.Preds) != 1 || !onlyCompare(cur) || inChain[cur] {
				break
			}
			ch.blocks = append(ch.blocks, cur)
			ch.consts = append(ch.consts, k2)
			last = cur
			cur = e2
		}
		ch.noMatch = cur
		ch.last = last
		if len(ch.blocks) >= 2 {
			for _, cb := range ch.blocks {
				inChain[cb] = true
			}
			out = append(out, ch)
		}
	}
	return out
}

// sameValue: identical SSA value, or two loads/len() of the same operand within straight-line code.
func sameValue(a, b ssa.Value) bool {
	if a == b {
		return true
	}
	ca, ok1 := a.(*ssa.Call)
	cb, ok2 := b.(*ssa.Call)
	if ok1 && ok2 && isBuiltin(&ca.Call, "len") && isBuiltin(&cb.Call, "len") {
		return ca.Call.Args[0] == cb.Call.Args[0]
	}
	return false
}

// rejectingFrom: no accept point of fn is reachable from the edge from->to.
func rejectingEdge(fn *ssa.Function, from, to *ssa.BasicBlock) bool {
	for _, ap := range acceptPoints(fn) {
		if ap.Pred != nil {
			if ap.Pred == from && ap.Block == to {
				return false
			}
			if reachableFrom(to, nil)[ap.Pred] {
				return false
			}
		} else if reachableFrom(to, nil)[ap.Block] {
			return false
		}
	}
	return true
}

func checkC02(p *Program, r *Report) {
	// round 6 (systematic): the Base58 / Base58Check layer this property's strings go through is C07's — its table,
	// checksum, exactness and purity clauses are necessary here too (§2.11)
	r.Borrow("C07", func(o *Ob) (string, bool) {
		switch o.Rule {
		case "C07.tables", "C07.checksum", "C07.exact", "C07.pure":
			if strings.Contains(o.Func, "bech32") || strings.Contains(o.Construct, "bech32") {
				return "", false
			}
			return "C02.base58", true
		}
		return "", false
	})
	r.Floor("C02.base58", 5)
	// round 6 (systematic): no unguarded mutable package-level state behind this property's functions (§2.9)
	sharedStateRule(p, r, NewEffects(p), "C02.shared", []string{"address.go", "base58/base58.go", "base58/base58check.go"})
	r.Floor("C02.shared", 0)
	r.Explain = "C02.exhaustive: every classification (tagged switch / if–else-if chain comparing one input-derived value with constants) in the decoding " +
		"functions rejects what it does not recognise: the 'no case matched' edge cannot reach an accepting return. C02.guards: payload-length, " +
		"regrouping-direction, prefix-present and single-case tests lie on every accepting path with the specified constants. C02.padding: the 5→8 bit " +
		"regrouping rejects exactly under the reference condition bits ≥ fromBits ∨ ((acc << (toBits − bits)) & maxv) ≠ 0 when not padding. C02.checksum: " +
		"every accepting return of the CashAddr decoder is behind the remainder test, of DecodeAddress behind a checksum-verifying decoder (or is the raw " +
		"public-key arm). C02.canon: no decoder rewrites its input with a normalising or Unicode case-mapping function (only ASCII folding), the per-character case " +
		"flags test exact ASCII ranges, and Base58 symbols are looked up per byte. C02.bits: all eight bits of the CashAddr version byte take part in its classification. " +
		"C02.whole: the CashAddr decoder is handed the whole input (as is, or prefix + ':' + lower-cased input), never a part of it. C02.registry: a legacy address is built only after " +
		"both registry lookups of its version byte. Not decided: injectivity of the whole decoding as a value-level statement; foreign-prefix rejection (a consequence of the checksum covering the prefix, see C03)."
	r.Trusted = []string{"CashAddr specification: payload = version byte + hash; regrouping 5↔8 with zero padding", "bchec.ParsePubKey"}

	decoders := []entryRef{{"", "DecodeAddress"}, {"", "DecodeCashAddress"}, {"", "DecodeWIF"}, {"hdkeychain", "NewKeyFromString"},
		{"base58", "CheckDecode"}, {"bech32", "Decode"}}
	var roots []*ssa.Function
	for _, e := range decoders {
		fn := p.Func(e.pkg, e.name)
		if fn == nil {
			r.Unresolved("C02.exhaustive", e.pkg+"."+e.name)
			continue
		}
		roots = append(roots, fn)
	}
	scope := p.Reachable(roots)

	// ---- C02.exhaustive
	nch := 0
	for _, fn := range scope {
		if errResultIndex(fn) < 0 {
			continue // classification consequences are judged where acceptance is decided
		}
		chains := findEqChains(fn)
		counts := map[string]int{}
		for _, ch := range chains {
			nch++
			sorted := append([]int64(nil), ch.consts...)
			sort.Slice(sorted, func(i, j int) bool { return sorted[i] < sorted[j] })
			name := fmt.Sprintf("classification of %s over %v rejects unlisted values", exprString(ch.tag), sorted)
			counts[name]++
			if counts[name] > 1 {
				name += fmt.Sprintf(" #%d", counts[name])
			}
			ok := rejectingEdge(fn, ch.last, ch.noMatch)
			how := "the 'no case matched' edge leads only to error returns"
			if !ok {
				how = "a value matching none of the cases reaches an accepting return (missing or accepting default)"
			}
			pos := token.NoPos
			if in := lastInstr(ch.blocks[0]); in != nil {
				pos = p.InstrPos(in)
			}
			r.Add("C02.exhaustive", FnName(fn), name, pos, ok, how)
		}
	}
	// default arms: in the syntax of every function in scope that reports errors, the default
	// clause of a (non-type) switch must lead only to error returns
	ndef := 0
	for _, fn := range scope {
		if errResultIndex(fn) < 0 || fn.Syntax() == nil {
			continue
		}
		cnt := 0
		ast.Inspect(fn.Syntax(), func(n ast.Node) bool {
			if fl, ok := n.(*ast.FuncLit); ok && ast.Node(fl) != fn.Syntax() {
				return false
			}
			sw, ok := n.(*ast.SwitchStmt)
			if !ok {
				return true
			}
			for _, st := range sw.Body.List {
				cc := st.(*ast.CaseClause)
				if cc.List != nil || len(cc.Body) == 0 {
					continue
				}
				if _, isFall := cc.Body[0].(*ast.BranchStmt); isFall {
					continue
				}
				lo, hi := cc.Body[0].Pos(), cc.End()
				blocks := map[*ssa.BasicBlock]bool{}
				for _, b := range fn.Blocks {
					for _, in := range b.Instrs {
						if pos := in.Pos(); pos.IsValid() && pos >= lo && pos < hi {
							blocks[b] = true
						}
					}
				}
				if len(blocks) == 0 {
					continue
				}
				ok := true
				for b := range blocks {
					if canReachAccept(fn, b) {
						ok = false
					}
				}
				ndef++
				cnt++
				name := "default arm of the switch rejects"
				if cnt > 1 {
					name += fmt.Sprintf(" #%d", cnt)
				}
				how := "the default clause leads only to error returns"
				if !ok {
					how = "the default clause reaches an accepting return: unrecognised input is accepted"
				}
				r.Add("C02.exhaustive", FnName(fn), name, cc.Pos(), ok, how)
			}
			return true
		})
	}
	r.Floor("C02.exhaustive", 6)
	r.Floor("C02.canon", 2)

	c02guards(p, r, scope)
	c02padding(p, r)
	c02checksum(p, r)
	if canonicalInput(p, r, "C02.canon", roots) == 0 {
		r.Note("C02.canon: no normalising or Unicode case-mapping call is reachable from the decoders")
	}
	base58ByteLookup(p, r, "C02.canon")
	asciiFoldExact(p, r, "C02.canon", roots)
	ownPrefixRule(p, r, "C02.net")
	r.Floor("C02.net", 1)
	// round 5: clauses decided for C01 that are just as much C02's — "an accepted address belongs to the network asked
	// for / to exactly the networks whose version byte it carries" is IsForNet's field agreement (C02-agent5-m2:
	// legacy IsForNet answered through paramsFromNetID), and the raw public-key arm accepts exactly the two key
	// lengths of the curve package (C02-agent5-m1: a bare 64-byte X||Y accepted and re-encoded with a marker)
	r.Borrow("C01", func(o *Ob) (string, bool) {
		switch {
		case o.Rule == "C01.membership":
			return "C02.member", true
		case o.Rule == "C01.kinds" && strings.Contains(o.Construct, "hex arm"):
			return "C02.hexarm", true
		}
		return "", false
	})
	r.Floor("C02.member", 4)
	r.Floor("C02.hexarm", 1)
	// round 6 (C02-agent6-m1/m2): "nothing with an unknown type/size version byte [or] wrong payload length … is
	// accepted" is the agreement of classifier, packer and decode arms that C01.kinds decides (K1's entries stay C01's)
	r.Borrow("C01", func(o *Ob) (string, bool) {
		if o.Rule == "C01.kinds" && !strings.Contains(o.Construct, "hex arm") {
			return "C02.kinds", true
		}
		if o.Rule == "C01.pure" {
			// C02-agent6-m3: a decoded address that a later conversion re-labels no longer re-encodes to its string
			return "C02.pure", true
		}
		return "", false
	})
	r.Floor("C02.kinds", 10)
	r.Floor("C02.pure", 10)
}

// regroupRoles recognises the bit-regrouping function: an outer loop with a
// bit counter φ (+= from, −= to in an inner loop) and an accumulator φ.
type regroupRoles struct {
	fn         *ssa.Function
	from, to   *ssa.Parameter
	pad        *ssa.Parameter
	bits, acc  *ssa.Phi
	fromI, toI int
	padI       int
}

func findRegroup(fn *ssa.Function) *regroupRoles {
	rr := &regroupRoles{fn: fn, fromI: -1, toI: -1, padI: -1}
	for i, pa := range fn.Params {
		if b, ok := pa.Type().Underlying().(*types.Basic); ok && b.Kind() == types.Bool {
			rr.pad, rr.padI = pa, i
		}
	}
	for _, b := range fn.Blocks {
		for _, in := range b.Instrs {
			ph, ok := in.(*ssa.Phi)
			if !ok || !isUnsignedT(ph.Type()) || !isLoopHeader(b) {
				continue
			}
			// bits: some use ADD(φ, P_from); back edge reaches through an inner φ with SUB(·, P_to)
			for _, ref := range *ph.Referrers() {
				bo, ok := ref.(*ssa.BinOp)
				if !ok {
					continue
				}
				if bo.Op == token.ADD && bo.X == ssa.Value(ph) {
					if pa, ok := bo.Y.(*ssa.Parameter); ok {
						// find SUB(inner, P_to) where inner φ has bo as an edge
						for _, r2 := range *bo.Referrers() {
							iph, ok := r2.(*ssa.Phi)
							if !ok {
								continue
							}
							for _, r3 := range *iph.Referrers() {
								sb, ok := r3.(*ssa.BinOp)
								if ok && sb.Op == token.SUB && sb.X == ssa.Value(iph) {
									if pb, ok := sb.Y.(*ssa.Parameter); ok {
										rr.bits, rr.from, rr.to = ph, pa, pb
										rr.fromI, rr.toI = paramIndex(fn, pa), paramIndex(fn, pb)
									}
								}
							}
						}
					}
				}
				if bo.Op == token.SHL && bo.X == ssa.Value(ph) {
					if _, ok := bo.Y.(*ssa.Parameter); ok {
						rr.acc = ph
					}
				}
			}
		}
	}
	if rr.bits == nil || rr.acc == nil || rr.pad == nil {
		return nil
	}
	return rr
}

func c02guards(p *Program, r *Report, scope []*ssa.Function) {
	// the CashAddr payload decoder: the in-scope function that calls the regrouping function
	var regroup *regroupRoles
	var decodeCall, encodeCall *ssa.Call
	var payloadDec *ssa.Function
	for _, fn := range p.Funcs {
		if fn.Pkg != p.Pkg("") {
			continue
		}
		if rr := findRegroup(fn); rr != nil && regroup == nil {
			regroup = rr
		}
	}
	if regroup == nil {
		r.Unresolved("C02.guards", "bit-regrouping function of package bchutil")
		return
	}
	inScope := map[*ssa.Function]bool{}
	for _, f := range scope {
		inScope[f] = true
	}
	for _, fn := range p.Funcs {
		for _, b := range fn.Blocks {
			for _, in := range b.Instrs {
				c, ok := in.(*ssa.Call)
				if !ok || c.Call.StaticCallee() != regroup.fn {
					continue
				}
				if inScope[fn] {
					decodeCall, payloadDec = c, fn
				} else {
					encodeCall = c
				}
			}
		}
	}
	argConst := func(c *ssa.Call, i int) (int64, bool) {
		if c == nil || i < 0 || i >= len(c.Call.Args) {
			return 0, false
		}
		if k, ok := constInt(c.Call.Args[i]); ok {
			return k, true
		}
		if b, ok := constBool(c.Call.Args[i]); ok {
			if b {
				return 1, true
			}
			return 0, true
		}
		return 0, false
	}
	if decodeCall == nil {
		r.Unresolved("C02.guards", "regrouping call on the decode path")
	} else {
		f, ok1 := argConst(decodeCall, regroup.fromI)
		t, ok2 := argConst(decodeCall, regroup.toI)
		pd, ok3 := argConst(decodeCall, regroup.padI)
		r.Add("C02.guards", FnName(payloadDec), "decoding regroups 5-bit symbols into bytes without padding", decodeCall.Pos(),
			ok1 && ok2 && ok3 && f == 5 && t == 8 && pd == 0, fmt.Sprintf("%s(data, from=%d, to=%d, pad=%v)", FnName(regroup.fn), f, t, pd != 0))
	}
	if encodeCall == nil {
		r.Unresolved("C02.guards", "regrouping call on the encode path")
	} else {
		f, ok1 := argConst(encodeCall, regroup.fromI)
		t, ok2 := argConst(encodeCall, regroup.toI)
		pd, ok3 := argConst(encodeCall, regroup.padI)
		r.Add("C02.guards", FnName(encodeCall.Parent()), "encoding regroups bytes into 5-bit symbols with zero padding", encodeCall.Pos(),
			ok1 && ok2 && ok3 && f == 8 && t == 5 && pd == 1, fmt.Sprintf("%s(data, from=%d, to=%d, pad=%v)", FnName(regroup.fn), f, t, pd != 0))
	}
	// payload length: every accepting return of the payload decoder knows len(regrouped) = 1 + hash size
	if payloadDec != nil {
		lc := NewLinCtx(p, payloadDec)
		pr := NewProver(p, payloadDec, lc)
		for i, ap := range acceptPoints(payloadDec) {
			f := lc.FactsOf(MustConds(payloadDec, ap))
			okLen := false
			val := int64(0)
			for _, b := range payloadDec.Blocks {
				for _, in := range b.Instrs {
					ex, ok := in.(*ssa.Extract)
					if !ok || ex.Tuple != ssa.Value(decodeCall) || ex.Index != 0 {
						continue
					}
					for _, K := range []int64{21, 33} {
						if lc.EntailsEq(f, lc.LenLin(ex).addConst(-K)) {
							okLen, val = true, K
						}
					}
				}
			}
			_ = pr
			r.Add("C02.guards", FnName(payloadDec), fmt.Sprintf("accepting return #%d: regrouped payload is exactly version byte + hash", i+1), ap.Ret.Pos(), okLen,
				fmt.Sprintf("len(regrouped) == %d on every path", val))
		}
	}
	// DecodeCashAddress: prefix present, single case
	if dc := p.Func("", "DecodeCashAddress"); dc != nil {
		lc := NewLinCtx(p, dc)
		for i, ap := range acceptPoints(dc) {
			conds := MustConds(dc, ap)
			f := lc.FactsOf(conds)
			// some φ (the separator position) is known non-zero and the prefix/payload split uses it
			okPrefix := false
			for _, ne := range f.ne {
				for _, a := range ne.atoms() {
					if ph, ok := lc.keys[a].v.(*ssa.Phi); ok && len(ne.coef) == 1 && ne.c == 0 {
						// the φ takes the loop index at a ':' comparison
						for _, e := range ph.Edges {
							if _, isPhi := e.(*ssa.Phi); isPhi {
								okPrefix = true
							}
						}
						_ = ph
					}
				}
			}
			r.Add("C02.guards", FnName(dc), fmt.Sprintf("accepting return #%d: a prefix separator was seen", i+1), ap.Ret.Pos(), okPrefix, "separator position ≠ 0 on every path")
		}
		// mixed case: flags set exactly for a..z / A..Z over the whole input; both set rejects
		exact, rej, why := caseFlagsExact(p, dc, dc.Params[0])
		r.Add("C02.guards", FnName(dc), "strings mixing upper and lower case reject", dc.Pos(), exact && rej, "flags cover exactly a..z and A..Z; the block where both are set leads only to error returns "+why)
	}
	r.Floor("C02.guards", 5)
	c02extra(p, r)
}

func isBoolPhi(ph *ssa.Phi) bool {
	b, ok := ph.Type().Underlying().(*types.Basic)
	return ok && b.Kind() == types.Bool
}

func c02padding(p *Program, r *Report) {
	var rr *regroupRoles
	for _, fn := range p.Funcs {
		if fn.Pkg == p.Pkg("") {
			if x := findRegroup(fn); x != nil {
				rr = x
			}
		}
	}
	if rr == nil {
		r.Unresolved("C02.padding", "bit-regrouping function")
		return
	}
	fn := rr.fn
	// the pad == false region
	var noPad *ssa.BasicBlock
	for _, b := range fn.Blocks {
		if iff, ok := lastInstr(b).(*ssa.If); ok && iff.Cond == ssa.Value(rr.pad) {
			noPad = b.Succs[1]
		}
		if iff, ok := lastInstr(b).(*ssa.If); ok {
			if u, ok := iff.Cond.(*ssa.UnOp); ok && u.Op == token.NOT && u.X == ssa.Value(rr.pad) {
				noPad = b.Succs[0]
			}
		}
	}
	if noPad == nil {
		r.Unresolved("C02.padding", "branch on the pad parameter")
		return
	}
	isMaxv := func(v ssa.Value) bool {
		// (1 << to) − 1, possibly converted
		v = stripIntConv(v)
		sb, ok := v.(*ssa.BinOp)
		if !ok || sb.Op != token.SUB {
			return false
		}
		if k, ok := constInt(sb.Y); !ok || k != 1 {
			return false
		}
		sh, ok := stripIntConv(sb.X).(*ssa.BinOp)
		if !ok || sh.Op != token.SHL || sh.Y != ssa.Value(rr.to) {
			return false
		}
		k, ok := constInt(sh.X)
		return ok && k == 1
	}
	tooMany, nonZero := false, false
	var posA, posB token.Pos
	for _, b := range fn.Blocks {
		if !(noPad == b || noPad.Dominates(b)) {
			continue
		}
		iff, ok := lastInstr(b).(*ssa.If)
		if !ok {
			continue
		}
		bo, ok := iff.Cond.(*ssa.BinOp)
		if !ok {
			continue
		}
		rej := !canReachAccept(fn, b.Succs[0])
		switch {
		case bo.Op == token.GEQ && bo.X == ssa.Value(rr.bits) && bo.Y == ssa.Value(rr.from) && rej:
			tooMany, posA = true, bo.Pos()
		case bo.Op == token.NEQ && rej:
			if k, ok := constInt(bo.Y); !ok || k != 0 {
				continue
			}
			and, ok := bo.X.(*ssa.BinOp)
			if !ok || and.Op != token.AND {
				continue
			}
			for _, pr := range [][2]ssa.Value{{and.X, and.Y}, {and.Y, and.X}} {
				sh, ok := pr[0].(*ssa.BinOp)
				if !ok || sh.Op != token.SHL || sh.X != ssa.Value(rr.acc) || !isMaxv(pr[1]) {
					continue
				}
				sub, ok := sh.Y.(*ssa.BinOp)
				if ok && sub.Op == token.SUB && sub.X == ssa.Value(rr.to) && sub.Y == ssa.Value(rr.bits) {
					nonZero, posB = true, bo.Pos()
				}
			}
		}
	}
	r.Add("C02.padding", FnName(fn), "without padding, bits ≥ fromBits left over rejects", posA, tooMany, "reference condition, first disjunct")
	r.Add("C02.padding", FnName(fn), "without padding, ((acc << (toBits − bits)) & maxv) ≠ 0 rejects", posB, nonZero, "reference condition, second disjunct: non-zero padding bits")
	r.Floor("C02.padding", 2)
}

func c02checksum(p *Program, r *Report) {
	if dc := p.Func("", "DecodeCashAddress"); dc != nil {
		gs := checkPolymodGuard(p, dc)
		for i, g := range gs {
			// the remainder function returns c ^ 1, so acceptance compares with 0
			r.Add("C02.checksum", FnName(dc), fmt.Sprintf("accepting return #%d is behind the CashAddr remainder test", i+1), dc.Pos(), g.ok, g.how)
		}
		if len(gs) == 0 {
			r.Unresolved("C02.checksum", "accepting return of DecodeCashAddress")
		}
	} else {
		r.Unresolved("C02.checksum", "DecodeCashAddress")
	}
	da := p.Func("", "DecodeAddress")
	if da == nil {
		r.Unresolved("C02.checksum", "DecodeAddress")
		return
	}
	for i, ap := range acceptPoints(da) {
		conds := MustConds(da, ap)
		how := "no checksum-verifying decoder succeeded on every path"
		ok := false
		for _, cd := range conds {
			bo, truth, isB := condBinOp(cd)
			if !isB || !(bo.Op == token.EQL && truth || bo.Op == token.NEQ && !truth) {
				continue
			}
			for _, side := range []ssa.Value{bo.X, bo.Y} {
				ex, isE := side.(*ssa.Extract)
				if !isE {
					continue
				}
				call, isC := ex.Tuple.(*ssa.Call)
				if !isC || call.Call.StaticCallee() == nil || !p.InRepo(call.Call.StaticCallee()) {
					continue
				}
				cal := call.Call.StaticCallee()
				if decoderVerifiesChecksum(p, cal, 0) {
					ok, how = true, "err == nil of "+FnName(cal)+" (checksum-verifying)"
					// a Base58Check result carries its version byte: the constructed address must take it from the string
					if cal.Pkg != da.Pkg && ap.Delegate != nil && cal.Signature.Results().Len() == 3 {
						flows := false
						for _, a := range ap.Delegate.Call.Args {
							if ex2, isE2 := stripIntConv(a).(*ssa.Extract); isE2 && ex2.Tuple == ssa.Value(call) && ex2.Index == 1 {
								flows = true
							}
						}
						r.Add("C02.guards", FnName(da), fmt.Sprintf("legacy accepting return #%d builds the address from the decoded version byte", i+1), ap.Ret.Pos(), flows,
							"the address belongs to exactly the networks whose version byte the string carries, not to the network asked for")
					}
				}
			}
		}
		if !ok && ap.Delegate != nil {
			if cal := ap.Delegate.Call.StaticCallee(); cal != nil {
				// the raw public-key arm: hex → key parser; no checksum exists in that format
				for _, cd := range conds {
					bo, truth, isB := condBinOp(cd)
					if isB && (bo.Op == token.EQL && truth) {
						if _, isK := constInt(bo.Y); isK {
							if c, isC := bo.X.(*ssa.Call); isC && isBuiltin(&c.Call, "len") {
								ok, how = true, "raw public-key arm (hex of a serialised key; the format has no checksum), validated by "+FnName(cal)
							}
						}
					}
				}
				// several length alternatives merge before the arm
				if !ok {
					for _, b := range da.Blocks {
						if b.Dominates(ap.Block) {
							for _, in := range b.Instrs {
								if c, isC := in.(*ssa.Call); isC && staticCalleeIs(&c.Call, "encoding/hex.DecodeString") {
									ok, how = true, "raw public-key arm (hex of a serialised key; the format has no checksum), validated by "+FnName(cal)
								}
							}
						}
					}
				}
			}
		}
		r.Add("C02.checksum", FnName(da), fmt.Sprintf("accepting return #%d follows a verified checksum", i+1), ap.Ret.Pos(), ok, how)
	}
	r.Floor("C02.checksum", 4)
}

// decoderVerifiesChecksum: every accept point of fn is checksum-guarded, either
// directly (4-byte SHA256d rule or remainder rule) or by the success of an
// in-repo callee that is.
func decoderVerifiesChecksum(p *Program, fn *ssa.Function, depth int) bool {
	if depth > 3 || len(fn.Blocks) == 0 {
		return false
	}
	aps := acceptPoints(fn)
	if len(aps) == 0 {
		return false
	}
	okAll := true
	poly := checkPolymodGuard(p, fn)
	four := check4ByteChecksum(p, fn)
	for i, ap := range aps {
		ok := (i < len(poly) && poly[i].ok) || (i < len(four) && four[i].ok)
		if !ok {
			for _, cd := range MustConds(fn, ap) {
				bo, truth, isB := condBinOp(cd)
				if !isB || !(bo.Op == token.EQL && truth || bo.Op == token.NEQ && !truth) {
					continue
				}
				for _, side := range []ssa.Value{bo.X, bo.Y} {
					if ex, isE := side.(*ssa.Extract); isE {
						if call, isC := ex.Tuple.(*ssa.Call); isC {
							if cal := call.Call.StaticCallee(); cal != nil && p.InRepo(cal) && decoderVerifiesChecksum(p, cal, depth+1) {
								ok = true
							}
						}
					}
				}
			}
		}
		if !ok {
			okAll = false
		}
	}
	return okAll
}

package main

import (
	"fmt"
	"go/token"
	"go/types"
	"sort"
	"strings"

	"golang.org/x/tools/go/ssa"
)

// c13extra: further structural necessary conditions of "no false negatives, strategies agree".
//
//	C13.every   every hashing loop hashes every element of the item list it ranges over
//	C13.fresh   the containers a query fills (index map) are allocated by that call itself
//	C13.writer  the builder writes each delta as ⌊delta/2^P⌋ one-bits, a zero bit, then the low P bits —
//	            the code the element reader (C13.reader) decodes; any other encoder is reported undecided
//
// everyRule is the name under which the "every item is hashed" obligations are filed (C14 reuses them for the builder).
var everyRule = "C13.every"

// everyOnly: file only the "every item is hashed" obligations (used by C14 for the builder)
var everyOnly = false

func c13extra(p *Program, r *Report, scope []*ssa.Function, inScope map[*ssa.Function]bool) {
	ef := NewEffects(p)
	nEvery, nFresh := 0, 0
	for _, fn := range scope {
		if !inScope[fn] {
			continue
		}
		for _, b := range fn.Blocks {
			for _, in := range b.Instrs {
				switch x := in.(type) {
				case *ssa.Call:
					// a hashing call: the keyed hash itself, or an in-package helper that reaches it, applied to an
					// element of a list of items
					isHash := staticCalleeIs(&x.Call, "github.com/aead/siphash.Sum64")
					if cal := x.Call.StaticCallee(); !isHash && cal != nil && inScope[cal] {
						for _, g := range p.Reachable([]*ssa.Function{cal}) {
							for _, gb := range g.Blocks {
								for _, gi := range gb.Instrs {
									if gc, ok := gi.(*ssa.Call); ok && staticCalleeIs(&gc.Call, "github.com/aead/siphash.Sum64") {
										isHash = true
									}
								}
							}
						}
					}
					if !isHash {
						continue
					}
					var ia *ssa.IndexAddr
					for _, a := range x.Call.Args {
						if ld, ok := a.(*ssa.UnOp); ok {
							if ia2, ok := ld.X.(*ssa.IndexAddr); ok {
								if sl, ok := ia2.X.Type().Underlying().(*types.Slice); ok {
									if _, isSl := sl.Elem().Underlying().(*types.Slice); isSl {
										ia = ia2
									}
								}
							}
						}
					}
					if ia == nil {
						continue
					}
					if _, isParam := ia.X.(*ssa.Parameter); !isParam {
						continue
					}
					nEvery++
					var h *ssa.BasicBlock
					for d := b; d != nil; d = d.Idom() {
						if isLoopHeader(d) && d != b {
							h = d
							break
						}
					}
					okAll, how := false, "the hash call is not inside a loop over the items"
					if h != nil {
						okAll, how = true, "the hash call dominates every back edge of the loop over "+ia.X.Name()
						for _, pb := range h.Preds {
							if h.Dominates(pb) && !b.Dominates(pb) {
								okAll, how = false, "some iteration reaches the next item without hashing this one (an item of "+ia.X.Name()+" can be skipped)"
							}
						}
						// the loop visits all of the parameter: `range` (index φ(-1,+1), tested after the increment) or
						// `for i := 0; i < len(p); i++` (index φ(0,+1)), tested against len(param)
						full := false
						if iff, ok := lastInstr(h).(*ssa.If); ok {
							if c, ok := iff.Cond.(*ssa.BinOp); ok && c.Op == token.LSS && c.X == ia.Index {
								if ln, ok := c.Y.(*ssa.Call); ok && isBuiltin(&ln.Call, "len") && ln.Call.Args[0] == ia.X {
									var phi *ssa.Phi
									want := int64(0)
									if inc, ok := ia.Index.(*ssa.BinOp); ok && inc.Op == token.ADD {
										phi, _ = inc.X.(*ssa.Phi)
										want = -1
									} else {
										phi, _ = ia.Index.(*ssa.Phi)
									}
									if phi != nil && phi.Block() == h && len(phi.Edges) == 2 {
										okInit, okStep := false, false
										for k, e := range phi.Edges {
											if h.Dominates(h.Preds[k]) {
												if inc, ok := e.(*ssa.BinOp); ok && inc.Op == token.ADD && (inc.X == ssa.Value(phi)) {
													if k1, ok := constInt(inc.Y); ok && k1 == 1 {
														okStep = true
													}
												}
											} else if k0, ok := constInt(e); ok && k0 == want {
												okInit = true
											}
										}
										full = okInit && okStep
									}
								}
							}
						}
						if !full {
							okAll, how = false, "the loop is not a range over the whole item list"
						}
					}
					r.Add(everyRule, FnName(fn), "every item of "+ia.X.Name()+" is hashed", x.Pos(), okAll, how)
				case *ssa.MapUpdate:
					if everyOnly {
						continue
					}
					nFresh++
					src := ef.Src(x.Map)
					fresh := len(src) > 0
					for root := range src {
						if root.Kind != rkFresh || ef.Pooled[root.Site] {
							fresh = false // recycled memory comes with its old contents
						}
					}
					r.Add("C13.fresh", FnName(fn), "the index a query fills is allocated by that call", x.Pos(), fresh, "origin of the map: "+src.String())
					gcsIndexComplete(p, r, fn, x)
				}
			}
		}
	}
	if nEvery == 0 {
		r.Unresolved(everyRule, "hashing loops over item lists")
	}
	r.Floor(everyRule, 1)
	if everyOnly {
		return
	}
	if nFresh == 0 {
		r.Unresolved("C13.fresh", "index map of the hash-based strategy")
	}
	r.Floor("C13.fresh", 1)
	r.Floor("C13.index", 2)

	gcsWriterRule(p, r, "C13.writer")
	if gcsSortedRule(p, r, "C13.sorted") == 0 {
		r.Unresolved("C13.sorted", "a []uint64 read by index in a function of package gcs that decodes the filter")
	}
	r.Floor("C13.sorted", 1)
	gcsQueryRule(p, r, NewEffects(p), "C13.frozen")
	r.Floor("C13.frozen", 8)
	// C13.bounds: a query answers, it does not panic (the panic-freedom obligations of C08 for the query methods)
	{
		var roots []*ssa.Function
		for _, m := range p.Methods("gcs", "Filter") {
			switch m.Name() {
			case "Match", "MatchAny", "ZipMatchAny", "HashMatchAny":
				roots = append(roots, m)
			}
		}
		c08Scope(p, r, p.Reachable(roots), "C13.bounds")
		r.Floor("C13.bounds", 5)
	}
}

// gcsWriterRule: the Golomb-Rice writer of the filter builder (shared by C13 and C14).
func gcsWriterRule(p *Program, r *Report, rule string) {
	bld := p.Func("gcs", "BuildGCSFilter")
	if bld == nil {
		r.Unresolved(rule, "gcs.BuildGCSFilter")
		return
	}
	isW := func(c *ssa.Call, name string) bool {
		cal := c.Call.StaticCallee()
		return cal != nil && cal.Name() == name && strings.Contains(cal.String(), "bstream")
	}
	var bitTrue, bitFalse, bits, other []*ssa.Call
	var cands []*ssa.Function
	for _, fn := range p.Reachable([]*ssa.Function{bld}) {
		if fn.Pkg == bld.Pkg || (fn.Parent() != nil && fn.Parent().Pkg == bld.Pkg) {
			cands = append(cands, fn)
		}
	}
	for _, fn := range cands {
		for _, b := range fn.Blocks {
			for _, in := range b.Instrs {
				c, ok := in.(*ssa.Call)
				if !ok {
					continue
				}
				switch {
				case isW(c, "WriteBit"):
					if v, ok := constBool(c.Call.Args[1]); ok && v {
						bitTrue = append(bitTrue, c)
					} else if ok {
						bitFalse = append(bitFalse, c)
					} else {
						other = append(other, c)
					}
				case isW(c, "WriteBits"):
					bits = append(bits, c)
				case isW(c, "WriteByte"), isW(c, "WriteUint64"), isW(c, "WriteBytes"):
					other = append(other, c)
				}
			}
		}
	}
	what := "each delta is written as quotient one-bits, a zero bit and the low P bits"
	if len(bitTrue) != 1 || len(bitFalse) != 1 || len(bits) != 1 || len(other) != 0 {
		r.Add(rule, FnName(bld), what, bld.Pos(), false,
			fmt.Sprintf("kind=undecided: unrecognised encoder: %d WriteBit(true), %d WriteBit(false), %d WriteBits, %d other bit-stream writes (expected 1, 1, 1, 0)", len(bitTrue), len(bitFalse), len(bits), len(other)))
		r.Floor(rule, 1)
		return
	}
	one, zero, rem := bitTrue[0], bitFalse[0], bits[0]
	okW, how := true, "for q > 0 { WriteBit(true); q-- }; WriteBit(false); WriteBits(delta & (2^P − 1), P) with q = (delta − rem) >> P"
	// the unary loop
	body := one.Block()
	var h *ssa.BasicBlock
	if len(body.Succs) == 1 && isLoopHeader(body.Succs[0]) {
		h = body.Succs[0]
	}
	var q *ssa.Phi
	if h == nil || len(body.Preds) != 1 || body.Preds[0] != h {
		okW, how = false, "the one-bits are not written by a loop whose whole body is WriteBit(true); q--"
	} else {
		iff, _ := lastInstr(h).(*ssa.If)
		var cond *ssa.BinOp
		if iff != nil {
			cond, _ = iff.Cond.(*ssa.BinOp)
		}
		if cond == nil || !(cond.Op == token.GTR || cond.Op == token.NEQ) || h.Succs[0] != body {
			okW, how = false, "the unary loop does not run while the quotient is positive"
		} else if k, isK := constInt(cond.Y); !isK || k != 0 {
			okW, how = false, "the unary loop does not run while the quotient is positive"
		} else if q, _ = cond.X.(*ssa.Phi); q == nil || q.Block() != h {
			okW, how = false, "the unary loop counter is not a loop-carried quotient"
		} else {
			for k, e := range q.Edges {
				if h.Preds[k] == body {
					dec, ok := e.(*ssa.BinOp)
					if !ok || dec.Op != token.SUB || dec.X != ssa.Value(q) {
						okW, how = false, "the quotient is not decremented by one per one-bit"
					} else if k1, isK := constInt(dec.Y); !isK || k1 != 1 {
						okW, how = false, "the quotient is not decremented by one per one-bit"
					}
				}
			}
			for _, in := range body.Instrs {
				if c, ok := in.(ssa.CallInstruction); ok && c != ssa.CallInstruction(one) {
					okW, how = false, "the unary loop does more than write a one-bit"
				}
			}
		}
	}
	// terminator and remainder follow the loop directly
	if okW {
		exit := h.Succs[1]
		if zero.Block() != exit || rem.Block() != exit || !instrDominates(zero, rem) {
			okW, how = false, "the zero bit and the remainder are not written right after the unary run"
		}
	}
	// quotient and remainder split the same delta at P
	if okW {
		// P: the filter's P field or a parameter carrying it; identified by a key so that re-loads compare equal
		pkey := func(v ssa.Value) string {
			v = stripIntConv(v)
			if f, _, ok := fieldLoad(v); ok {
				return "field " + f.Name()
			}
			if pa, ok := v.(*ssa.Parameter); ok {
				return "param " + pa.Name()
			}
			return ""
		}
		pf := pkey(rem.Call.Args[2])
		mask, ok := rem.Call.Args[1].(*ssa.BinOp)
		var delta ssa.Value
		if pf == "" {
			okW, how = false, "the remainder width is not the filter's P (field or parameter)"
		} else if !ok || mask.Op != token.AND {
			okW, how = false, "the remainder is not delta & (2^P − 1)"
		} else {
			for _, pr := range [][2]ssa.Value{{mask.X, mask.Y}, {mask.Y, mask.X}} {
				if m, ok := pr[1].(*ssa.BinOp); ok && m.Op == token.SUB {
					if k, isK := constInt(m.Y); isK && k == 1 {
						if sh, ok := m.X.(*ssa.BinOp); ok && sh.Op == token.SHL {
							if k1, isK := constInt(sh.X); isK && k1 == 1 {
								if pkey(sh.Y) == pf {
									delta = pr[0]
								}
							}
						}
					}
				}
			}
			if delta == nil {
				okW, how = false, "the remainder is not delta & (2^P − 1)"
			}
		}
		if okW {
			// initial quotient: (delta − rem) >> P or delta >> P
			var init ssa.Value
			for k, e := range q.Edges {
				if h.Preds[k] != body {
					init = e
				}
			}
			sh, ok := init.(*ssa.BinOp)
			if !ok || sh.Op != token.SHR {
				okW, how = false, "the quotient is not delta >> P"
			} else if pkey(sh.Y) != pf {
				okW, how = false, "the quotient is not shifted by the filter's P"
			} else {
				x := sh.X
				if sub, ok := x.(*ssa.BinOp); ok && sub.Op == token.SUB && sub.Y == rem.Call.Args[1] {
					x = sub.X
				}
				if exprString(x) != exprString(delta) {
					okW, how = false, "quotient and remainder are not taken from the same delta ("+exprString(x)+" vs "+exprString(delta)+")"
				}
			}
		}
	}
	r.Add(rule, FnName(bld), what, one.Pos(), okW, how)
	r.Floor(rule, 1)
}

// gcsIndexComplete (round 5, C13-agent5-m3): the hash-based strategy decides from an index of the filter's values; a
// member is missed if its value never enters the index.  Structurally: the loop that fills the index is left only
// because the reader failed (EOF or error) — never because of the values read so far — and every successful read
// reaches the insertion before the next iteration.  A range-limited index (stop at the largest query value, skip
// values below the smallest) is refused by this clause even when it is correct; it fails closed.
func gcsIndexComplete(p *Program, r *Report, fn *ssa.Function, mu *ssa.MapUpdate) {
	B := mu.Block()
	var h *ssa.BasicBlock
	for _, c := range fn.Blocks {
		if isLoopHeader(c) && c.Dominates(B) && reachableFrom(B, nil)[c] {
			if h == nil || h.Dominates(c) {
				h = c // innermost
			}
		}
	}
	fname := FnName(fn)
	if h == nil {
		r.Undecided("C13.index", fname, "the index is filled by a loop over the whole filter", mu.Pos(), "the insertion is not inside a loop")
		return
	}
	inLoop := map[*ssa.BasicBlock]bool{}
	for _, c := range fn.Blocks {
		if h.Dominates(c) && reachableFrom(c, nil)[h] {
			inLoop[c] = true
		}
	}
	isReaderErr := func(v ssa.Value) bool {
		ex, ok := v.(*ssa.Extract)
		if !ok {
			return false
		}
		call, ok := ex.Tuple.(*ssa.Call)
		if !ok || !inLoop[call.Block()] {
			return false
		}
		return types.Identical(ex.Type(), types.Universe.Lookup("error").Type())
	}
	errCond := func(v ssa.Value) bool {
		for {
			if u, ok := v.(*ssa.UnOp); ok && u.Op == token.NOT {
				v = u.X
				continue
			}
			break
		}
		switch x := v.(type) {
		case *ssa.BinOp:
			if x.Op != token.EQL && x.Op != token.NEQ {
				return false
			}
			other := x.Y
			if !isReaderErr(x.X) {
				if !isReaderErr(x.Y) {
					return false
				}
				other = x.X
			}
			if isNilConst(other) {
				return true
			}
			if ld, ok := other.(*ssa.UnOp); ok && ld.Op == token.MUL {
				_, isG := ld.X.(*ssa.Global)
				return isG
			}
			return false
		case *ssa.Call:
			if staticCalleeIs(&x.Call, "errors.Is") && len(x.Call.Args) == 2 && isReaderErr(x.Call.Args[0]) {
				return true
			}
		}
		return false
	}
	// (a) exits
	okExit, howExit := true, "every exit of the filling loop is decided by the reader's error result alone"
	for c := range inLoop {
		for _, s := range c.Succs {
			if inLoop[s] {
				continue
			}
			iff, ok := lastInstr(c).(*ssa.If)
			if !ok || !errCond(iff.Cond) {
				okExit = false
				cond := "an unconditional jump"
				if ok {
					cond = exprString(iff.Cond)
				}
				howExit = "the loop is also left on " + cond + " at " + p.Pos(p.InstrPos(lastInstr(c))) + ": values behind that point never enter the index"
			}
		}
	}
	r.Add("C13.index", fname, "the loop that fills the index stops only when the filter's bit stream is exhausted (or fails)", p.InstrPos(h.Instrs[0]), okExit, howExit)
	// (b) every successful read inserts
	okIns, howIns, nSucc := true, "from every 'read succeeded' edge the insertion is reached before the next iteration", 0
	for c := range inLoop {
		iff, ok := lastInstr(c).(*ssa.If)
		if !ok || !errCond(iff.Cond) {
			continue
		}
		cd := Cond{V: iff.Cond, Truth: true, At: c}
		bo, truth, isB := condBinOp(cd)
		if !isB || !(isNilConst(bo.X) || isNilConst(bo.Y)) {
			continue
		}
		// edge on which err == nil
		succ := c.Succs[0]
		if (bo.Op == token.EQL) != truth {
			succ = c.Succs[1]
		}
		nSucc++
		if succ == B {
			continue
		}
		if reachableFrom(succ, map[*ssa.BasicBlock]bool{B: true})[h] {
			okIns, howIns = false, "a value that was read successfully can reach the next iteration (or the end of the loop body) without being inserted"
		}
	}
	if nSucc == 0 {
		r.Undecided("C13.index", fname, "every value read from the filter enters the index", mu.Pos(), "no 'err == nil' test of the reader's result found in the filling loop")
		return
	}
	r.Add("C13.index", fname, "every value read from the filter enters the index", mu.Pos(), okIns, howIns)
}

// gcsSortedRule (round 6, C13-agent6-m1): the zip strategy merges the decoded filter with the hashed query, advancing
// through the query only forwards; it is right only for a query in ascending order.  Every []uint64 that a function
// of package gcs reads by index while it also decodes the filter (calls the in-repo delta reader) is sorted before the
// first read: a sort call on that very value dominates the reads, or — when the slice arrives as a parameter — every
// call site in the repository hands in a value that was sorted there.  (HashMatchAny falling back to the merge helper
// with the query in arrival order answered "no match" for members.)
func gcsSortedRule(p *Program, r *Report, rule string) int {
	pk := p.Pkg("gcs")
	if pk == nil {
		return 0
	}
	isU64Slice := func(t types.Type) bool {
		sl, ok := t.Underlying().(*types.Slice)
		if !ok {
			return false
		}
		b, ok := sl.Elem().Underlying().(*types.Basic)
		return ok && b.Kind() == types.Uint64
	}
	decodes := func(fn *ssa.Function) bool {
		for _, b := range fn.Blocks {
			for _, in := range b.Instrs {
				c, ok := in.(*ssa.Call)
				if !ok {
					continue
				}
				cal := c.Call.StaticCallee()
				if cal == nil || !p.InRepo(cal) || cal.Signature.Results().Len() != 2 {
					continue
				}
				if bt, ok := cal.Signature.Results().At(0).Type().Underlying().(*types.Basic); ok && bt.Kind() == types.Uint64 {
					return true
				}
			}
		}
		return false
	}
	sortCallOn := func(c *ssa.Call, v ssa.Value) bool {
		cal := c.Call.StaticCallee()
		if cal == nil || len(c.Call.Args) == 0 {
			return false
		}
		if org := cal.Origin(); org != nil {
			cal = org // slices.Sort[[]uint64 uint64] is an instance without a package of its own
		}
		switch cal.String() {
		case "sort.Slice", "sort.SliceStable", "sort.Sort", "sort.Stable", "slices.Sort", "slices.SortFunc", "slices.SortStableFunc":
		default:
			if !(cal.Pkg != nil && cal.Pkg.Pkg.Path() == "slices" && strings.HasPrefix(cal.Name(), "Sort")) {
				return false
			}
		}
		a := c.Call.Args[0]
		if mi, ok := a.(*ssa.MakeInterface); ok {
			a = mi.X
		}
		if ct, ok := a.(*ssa.ChangeType); ok {
			a = ct.X
		}
		if a == v {
			return true
		}
		// a variable captured by the comparison closure lives in a cell: both are loads of the same cell, and nothing is
		// stored to the cell after the sort
		la, okA := a.(*ssa.UnOp)
		lv, okV := v.(*ssa.UnOp)
		if !okA || !okV || la.Op != token.MUL || lv.Op != token.MUL || la.X != lv.X {
			return false
		}
		cell, isCell := la.X.(*ssa.Alloc)
		if !isCell {
			return false
		}
		after := map[*ssa.BasicBlock]bool{}
		for _, sc := range c.Block().Succs {
			for b := range reachableFrom(sc, nil) {
				after[b] = true
			}
		}
		for _, ref := range *cell.Referrers() {
			st, isSt := ref.(*ssa.Store)
			if !isSt || st.Addr != ssa.Value(cell) {
				continue
			}
			if after[st.Block()] {
				return false
			}
			if st.Block() == c.Block() {
				// in the sort's own block: must come before it
				for _, in := range c.Block().Instrs {
					if in == ssa.Instruction(c) {
						return false
					}
					if in == ssa.Instruction(st) {
						break
					}
				}
			}
		}
		return true
	}
	var sortedAt func(fn *ssa.Function, v ssa.Value, at *ssa.BasicBlock, depth int) (bool, string)
	callSites := func(fn *ssa.Function) []*ssa.Call {
		var out []*ssa.Call
		for _, g := range p.Funcs {
			for _, b := range g.Blocks {
				for _, in := range b.Instrs {
					if c, ok := in.(*ssa.Call); ok && c.Call.StaticCallee() == fn {
						out = append(out, c)
					}
				}
			}
		}
		return out
	}
	sortedAt = func(fn *ssa.Function, v ssa.Value, at *ssa.BasicBlock, depth int) (bool, string) {
		for _, b := range fn.Blocks {
			for _, in := range b.Instrs {
				if c, ok := in.(*ssa.Call); ok && sortCallOn(c, v) && (b == at || b.Dominates(at)) {
					return true, "sorted at " + p.Pos(c.Pos())
				}
			}
		}
		// a window of a sorted slice is sorted (benign variant b-c13-v3: `pending = pending[1:]` in the merge loop): look
		// through φ and slicing to the slices the value can stand for
		switch v.(type) {
		case *ssa.Phi, *ssa.Slice:
			roots := map[ssa.Value]bool{}
			seen := map[ssa.Value]bool{}
			var walk func(x ssa.Value)
			walk = func(x ssa.Value) {
				if seen[x] {
					return
				}
				seen[x] = true
				if x != v {
					for _, b := range fn.Blocks {
						for _, in := range b.Instrs {
							if c, ok := in.(*ssa.Call); ok && sortCallOn(c, x) && (b == at || b.Dominates(at)) {
								roots[x] = true
								return
							}
						}
					}
				}
				switch y := x.(type) {
				case *ssa.Phi:
					for _, e := range y.Edges {
						walk(e)
					}
				case *ssa.Slice:
					walk(y.X)
				default:
					roots[x] = true
				}
			}
			walk(v)
			if len(roots) > 0 && depth < 3 {
				how := ""
				for rt := range roots {
					ok, h := sortedAt(fn, rt, at, depth+1)
					if !ok {
						return false, h
					}
					how = h
				}
				return true, how + " (read through a window of it)"
			}
		}
		// the result of an in-repo helper that sorts what it returns (third benign round: h.sortedHashes(data))
		if c, ok := v.(*ssa.Call); ok && depth < 3 {
			if cal := c.Call.StaticCallee(); cal != nil && p.InRepo(cal) && len(cal.Blocks) > 0 {
				all := true
				nret := 0
				for _, ret := range returnsOf(cal) {
					if len(ret.Results) == 0 || isNilConst(ret.Results[0]) {
						continue
					}
					nret++
					if ok, _ := sortedAt(cal, ret.Results[0], ret.Block(), depth+1); !ok {
						all = false
					}
				}
				if nret > 0 && all {
					return true, "sorted by " + FnName(cal) + " before it is returned"
				}
			}
		}
		if pa, ok := v.(*ssa.Parameter); ok && depth < 3 {
			idx := paramIndex(fn, pa)
			sites := callSites(fn)
			if len(sites) == 0 {
				return false, "parameter of a function without in-repo callers"
			}
			for _, c := range sites {
				if idx >= len(c.Call.Args) {
					return false, "call without the argument"
				}
				if ok, why := sortedAt(c.Parent(), c.Call.Args[idx], c.Block(), depth+1); !ok {
					return false, "the call at " + p.Pos(c.Pos()) + " in " + FnName(c.Parent()) + " hands in a slice that is not sorted there (" + why + ")"
				}
			}
			return true, "sorted at every call site"
		}
		return false, "no sort call on this slice dominates the read"
	}
	n := 0
	for _, fn := range p.Funcs {
		if fn.Pkg != pk || !decodes(fn) {
			continue
		}
		done := map[ssa.Value]bool{}
		for _, b := range fn.Blocks {
			for _, in := range b.Instrs {
				ia, ok := in.(*ssa.IndexAddr)
				if !ok || !isU64Slice(ia.X.Type()) || done[ia.X] {
					continue
				}
				// only reads matter
				// only elements that are ORDER-compared matter (a merge); an element that is looked up in an index or
				// compared for equality needs no order
				read := false
				for _, ref := range *ia.Referrers() {
					if u, ok := ref.(*ssa.UnOp); ok && u.Op == token.MUL {
						for _, r2 := range *u.Referrers() {
							if bo, ok := r2.(*ssa.BinOp); ok {
								switch bo.Op {
								case token.LSS, token.GTR, token.LEQ, token.GEQ:
									read = true
								}
							}
						}
					}
				}
				if !read {
					continue
				}
				done[ia.X] = true
				n++
				ok2, why := sortedAt(fn, ia.X, b, 0)
				r.Add(rule, FnName(fn), "the hashed query "+exprString(ia.X)+" merged with the decoded filter is in ascending order", ia.Pos(), ok2, why)
			}
		}
	}
	return n
}

// gcsBuildRefusals: BuildGCSFilter refuses for P, or because the number of items does not fit the 32-bit count field
// (len(data) compared with a constant of at least 2^32) — nothing else.
func gcsBuildRefusals(p *Program, r *Report, rule string, fn *ssa.Function, pp *ssa.Parameter) {
	rej := rejectingBlocks(fn)
	n := 0
	for _, b := range fn.Blocks {
		iff, ok := lastInstr(b).(*ssa.If)
		if !ok || rej[b] || mergedErrTest(b) || (!rejectingVia(rej, b, b.Succs[0], 0) && !rejectingVia(rej, b, b.Succs[1], 0)) {
			continue
		}
		n++
		var foreign []string
		for pa := range valueParamDeps(iff.Cond) {
			if pa != pp {
				foreign = append(foreign, pa.Name())
			}
		}
		good := len(foreign) == 0
		if !good {
			// the count-fits-uint32 test
			if bo, isB := iff.Cond.(*ssa.BinOp); isB && (bo.Op == token.GEQ || bo.Op == token.GTR) {
				if k, isK := constUint(bo.Y); isK && k >= 1<<32-1 {
					if c, isC := stripConv(bo.X).(*ssa.Call); isC && isBuiltin(&c.Call, "len") {
						good = true
					}
				}
			}
		}
		sort.Strings(foreign)
		r.Add(rule, FnName(fn), fmt.Sprintf("refusal #%d is decided by P (or by the item count not fitting 32 bits)", n), iff.Cond.Pos(), good,
			fmt.Sprintf("condition %s; other arguments it reads: {%s}", exprString(iff.Cond), strings.Join(foreign, ", ")))
	}
}

// c13verdicts (mutation sweep: `return false, nil` → `return true, nil` on the exhausted-filter, exhausted-query,
// empty-query and end-of-stream exits of Match / ZipMatchAny / HashMatchAny — none is noticed by the suite): a query
// function of the filter answers the constant true only on an edge where a decoded filter value has just been found
// equal to a hashed query item (an integer equality, or a positive comma-ok lookup in the index of decoded values).
// Every other constant verdict is false: the empty query, the empty filter and a filter whose values ran out match
// nothing, and "any-of" is true exactly when one item matches.
func c13verdicts(p *Program, r *Report) {
	pkg := p.Pkg("gcs")
	n, nFn := 0, 0
	for _, fn := range p.Funcs {
		if fn.Pkg != pkg || fn.Parent() != nil || fn.Signature.Recv() == nil || len(fn.Blocks) == 0 {
			continue
		}
		res := fn.Signature.Results()
		if res.Len() != 2 {
			continue
		}
		if b, ok := res.At(0).Type().Underlying().(*types.Basic); !ok || b.Kind() != types.Bool {
			continue
		}
		nFn++
		for _, ret := range returnsOf(fn) {
			v, isK := constBool(ret.Results[0])
			if !isK || !v || !isNilConst(ret.Results[1]) {
				continue // a computed verdict (`return current == target, nil`, a callee's answer) is not this clause's business
			}
			found := false
			for _, c := range MustCondsAtBlock(fn, ret.Block()) {
				val, truth := c.V, c.Truth
				for {
					if u, ok := val.(*ssa.UnOp); ok && u.Op == token.NOT {
						val, truth = u.X, !truth
						continue
					}
					break
				}
				switch x := val.(type) {
				case *ssa.BinOp:
					bt, isB := x.X.Type().Underlying().(*types.Basic)
					if isB && bt.Info()&types.IsInteger != 0 && ((x.Op == token.EQL && truth) || (x.Op == token.NEQ && !truth)) {
						if _, isC := x.Y.(*ssa.Const); !isC {
							if _, isC := x.X.(*ssa.Const); !isC {
								found = true
							}
						}
					}
				case *ssa.Extract:
					if lk, ok := x.Tuple.(*ssa.Lookup); ok && lk.CommaOk && x.Index == 1 && truth {
						found = true
					}
				}
			}
			n++
			r.Add("C13.every", FnName(fn), "the constant verdict true is given only where a decoded value equals a query value", ret.Pos(), found,
				"no equality of two computed values and no positive index lookup selects this return: an empty or exhausted filter / query would match")
		}
	}
	_ = n
	if nFn < 4 {
		r.Unresolved("C13.every", fmt.Sprintf("query functions of gcs.Filter returning (bool, error) (found %d, expected the single-item query, the any-of query and its two strategies)", nFn))
	}
}

#!/usr/bin/env python3
"""Syntactic mutation sweep (development tool, not a registered check).

For every non-test source line of the given files, applies small operator / constant mutations one at a time in a scratch
copy of /repo, keeps the mutants that still build and pass the repository's own suite ("survivors"), and runs all quick
checks (without the helper-inlined views: -no-inline) on each survivor.  Survivors that no check reports are printed as
UNCAUGHT for triage: each is either an equivalent mutant or a gap in the rules.

usage: mutsweep.py [-j N] [--bin path] file.go ...      (paths relative to /repo)
"""
import os, re, shutil, subprocess, sys, tempfile, json
from concurrent.futures import ThreadPoolExecutor

VERIF = os.path.dirname(os.path.dirname(os.path.abspath(__file__)))
PROPS = "C01 C02 C03 C04 C05 C06 C07 C08 C09 C10 C11 C12 C13 C14 C15 C16 C17 C18 C19 C20".split()
ENV = dict(os.environ, GOFLAGS="-mod=mod", GOPROXY="off", GOSUMDB="off", GOTOOLCHAIN="local", GOWORK="off")

# second operator set (--set 2): statement deletion and arithmetic / update operators
MUTS2 = [
    (r" \+ ", " - "), (r" - ", " + "), (r" \* ", " / "), (r" \+= ", " = "), (r" \+= ", " -= "), (r"\+\+", "--"),
    (r" \| ", " & "), (r" << ", " >> "), (r"\[i\]", "[0]"), (r"\bnil\b", "err"), (r"\buint32\(", "uint16("), (r"\blen\(", "cap("),
]
STMT = re.compile(r"^\s*(defer\s+)?[A-Za-z_][\w\.\[\]\*, ]*(\(.*\)|\s*(=|\+=|-=|\|=|&=|<<=|>>=)\s.*|\+\+|--)\s*$")
OPSET = 1

MUTS = [
    (r" < ", " <= "), (r" <= ", " < "), (r" > ", " >= "), (r" >= ", " > "),
    (r" == ", " != "), (r" != ", " == "), (r" && ", " || "), (r" \|\| ", " && "),
    (r" \+ 1\b", " + 2"), (r" - 1\b", " - 2"), (r" \+ 1\b", ""), (r" - 1\b", ""),
    (r"\btrue\b", "false"), (r"\bfalse\b", "true"),
    (r"\b0x1f\b", "0x0f"), (r"\b0x01\b", "0x00"), (r"\b8\b", "7"), (r"\b4\b", "3"), (r"\b5\b", "6"), (r"\b32\b", "31"), (r"\b20\b", "21"),
    (r">> ", "<< "), (r" & ", " | "), (r"\[1:\]", "[:]"), (r"\[:4\]", "[:3]"),
    (r"\bcontinue\b", "break"), (r"\breturn nil, err\b", "return nil, nil"),
]

def mutants(path):
    src = open(os.path.join("/repo", path)).read().split("\n")
    out = []
    in_block_comment = False
    for i, line in enumerate(src):
        s = line.strip()
        if in_block_comment:
            if "*/" in s:
                in_block_comment = False
            continue
        if s.startswith("/*"):
            if "*/" not in s:
                in_block_comment = True
            continue
        if s.startswith("//") or s.startswith("*") or not s or s.startswith("import") or s.startswith("package"):
            continue
        code = line.split("//")[0]
        if '"' in code and code.count('"') >= 2 and ("Errorf" in code or "errors.New" in code):
            continue
        if OPSET == 2 and STMT.match(code) and not code.rstrip().endswith("{") and ":=" not in code:
            out.append((path, i, 99, line[:len(line) - len(line.lstrip())] + "// deleted"))
        for k, (pat, rep) in enumerate(MUTS if OPSET == 1 else MUTS2):
            m = re.search(pat, code)
            if not m:
                continue
            new = code[:m.start()] + re.sub(pat, rep, code[m.start():], count=1) + line[len(code):]
            if new != line:
                out.append((path, i, k, new))
    return out

def worker_dir():
    d = tempfile.mkdtemp(prefix="ms-", dir="/tmp")
    subprocess.run(["rsync", "-a", "--exclude", ".git", "/repo/", d + "/"], check=True)
    return d

def run_one(d, m, binp):
    path, i, k, new = m
    f = os.path.join(d, path)
    orig = open(f).read()
    lines = orig.split("\n")
    old = lines[i]
    lines[i] = new
    open(f, "w").write("\n".join(lines))
    try:
        try:
            r = subprocess.run("go build ./... 2>&1", shell=True, cwd=d, env=ENV, capture_output=True, text=True, errors="replace", timeout=900)
        except subprocess.TimeoutExpired:
            return (m, "nobuild", "timeout")
        if r.returncode != 0:
            return (m, "nobuild", "")
        try:
            r = subprocess.run("go test -vet=off ./... 2>&1", shell=True, cwd=d, env=ENV, capture_output=True, text=True, errors="replace", timeout=240)
        except subprocess.TimeoutExpired:
            return (m, "killed", "timeout")
        if r.returncode != 0:
            return (m, "killed", "")
        flagged = []
        for q in PROPS:
            c = subprocess.run([binp, "-prop", q, "-tier", "quick", "-noevidence", "-no-inline", "-repo", d, "-verif", VERIF],
                               env=ENV, capture_output=True, text=True, errors="replace")
            if c.returncode != 0:
                rules = sorted(set(re.findall(r"(C\d\d\.[a-z0-9]+) violated", c.stdout)))
                flagged.append(q + ":" + ",".join(r.split(".")[1] for r in rules))
        return (m, "caught" if flagged else "UNCAUGHT", " ".join(flagged) + " | " + old.strip() + "  ==>  " + new.strip())
    finally:
        open(f, "w").write(orig)

def main():
    a = sys.argv[1:]
    j = 4; binp = os.path.join(VERIF, "bin", "bchverif"); files = []
    i = 0
    while i < len(a):
        if a[i] == "-j": j = int(a[i+1]); i += 2
        elif a[i] == "--bin": binp = a[i+1]; i += 2
        elif a[i] == "--set":
            global OPSET
            OPSET = int(a[i+1]); i += 2
        else: files.append(a[i]); i += 1
    ms = []
    for f in files:
        ms.extend(mutants(f))
    print("mutants:", len(ms), flush=True)
    dirs = [worker_dir() for _ in range(j)]
    free = list(dirs)
    import threading
    lock = threading.Lock()
    def task(m):
        with lock:
            d = free.pop()
        try:
            return run_one(d, m, binp)
        finally:
            with lock:
                free.append(d)
    counts = {}
    try:
        with ThreadPoolExecutor(j) as ex:
            for m, st, info in ex.map(task, ms):
                counts[st] = counts.get(st, 0) + 1
                if st in ("UNCAUGHT", "caught"):
                    print("%-9s %s:%d %s" % (st, m[0], m[1] + 1, info), flush=True)
    finally:
        for d in dirs:
            shutil.rmtree(d, ignore_errors=True)
    print("totals:", counts, flush=True)

if __name__ == "__main__":
    main()

#!/bin/sh
# Applies every stored benign variant (benign/<id>/patch.diff) to /repo, runs ALL quick checks, undoes it at once.
# Prints silent / flagged per variant and compares with the recorded status; exit 2 if a variant recorded silent is flagged.
cd "$(dirname "$0")/.." || exit 2
rc=0
for d in benign/*/; do
	id=$(basename "$d")
	if ! git -C /repo apply --check "$(pwd)/$d/patch.diff" 2>/dev/null; then echo "stale    $id"; continue; fi
	git -C /repo apply "$(pwd)/$d/patch.diff"
	flagged=""
	for q in C01 C02 C03 C04 C05 C06 C07 C08 C09 C10 C11 C12 C13 C14 C15 C16 C18 C19 C20; do
		bin/bchverif -prop $q -tier quick -noevidence -repo /repo -verif "$(pwd)" >/dev/null 2>&1 || flagged="$flagged $q"
	done
	git -C /repo checkout -q -- .; git -C /repo clean -fdq
	want=$(grep -o '"status": "[a-z]*"' "$d/status.json" | cut -d'"' -f4)
	if [ -z "$flagged" ]; then got=silent; else got=flagged; fi
	echo "$got  $id (recorded: $want)$flagged"
	if [ "$want" = silent ] && [ "$got" = flagged ]; then rc=2; fi
done
find evidence/replay -type f -delete 2>/dev/null
exit $rc

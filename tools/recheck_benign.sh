#!/bin/sh
# Applies every stored benign variant (benign/<id>/patch.diff) to /repo, runs ALL quick checks, undoes it at once.
# Prints silent / flagged per variant and compares with the recorded status; exit 2 if a variant recorded silent is flagged.
cd "$(dirname "$0")/.." || exit 2
rc=0
# one private Go build cache for all helper-inlined views of this run (see checker/main.go viewCacheDir)
BCHVERIF_VIEWCACHE=$(mktemp -d /tmp/bchverif-gocache-XXXXXX); export BCHVERIF_VIEWCACHE
trap 'rm -rf "$BCHVERIF_VIEWCACHE"' EXIT
# every patched tree leaves compiled packages in the Go build cache: keep it from filling the disk
trim_cache() {
	c=$(go env GOCACHE 2>/dev/null); [ -d "$c" ] || return 0
	kb=$(du -sk "$c" 2>/dev/null | cut -f1)
	[ "${kb:-0}" -gt 30000000 ] && go clean -cache 2>/dev/null
	return 0
}
n=0
for d in benign/*/; do
	n=$((n+1)); [ $((n % 10)) -eq 0 ] && trim_cache
	id=$(basename "$d")
	if ! git -C /repo apply --check "$(pwd)/$d/patch.diff" 2>/dev/null; then echo "stale    $id"; continue; fi
	git -C /repo apply "$(pwd)/$d/patch.diff"
	flagged=""
	for q in C01 C02 C03 C04 C05 C06 C07 C08 C09 C10 C11 C12 C13 C14 C15 C16 C18 C19 C20; do
		bin/bchverif -prop $q -tier quick -noevidence -repo /repo -verif "$(pwd)" >/dev/null 2>&1 || flagged="$flagged $q"
	done
	git -C /repo checkout -q -- .; git -C /repo clean -fdq
	want=$(grep -o '"status": "[a-z]*"' "$d/status.json" | cut -d'"' -f4)
	if [ -z "$flagged" ]; then got=silent; else got=flagged; fi
	echo "$got  $id (recorded: $want)$flagged"
	if [ "$want" = silent ] && [ "$got" = flagged ]; then rc=2; fi
done
find evidence/replay -type f -delete 2>/dev/null
exit $rc

#!/usr/bin/env python3
"""Confirm a sub-agent mutant and run the property's check against it.

usage: evalmutant.py <prop> <mutant dir> [--keep <seeded id>]

1. scratch worktree of /repo HEAD under /tmp: the patch applies, the library builds, the suite passes,
   the demonstration fails with the patch and passes without it;
2. the property's quick check is run against the patched scratch worktree (same sources as /repo plus the patch).
With --keep the confirmed mutant is copied to /verif/seeded/<id>/ with a meta.json.
"""
import json, os, re, shutil, subprocess, sys, tempfile

ENV = dict(os.environ, GOFLAGS="-mod=mod", GOPROXY="off", GOSUMDB="off", GOTOOLCHAIN="local")
PKGDIR = {"bchutil": ".", "base58": "base58", "bech32": "bech32", "merkleblock": "merkleblock", "hdkeychain": "hdkeychain",
          "gcs": "gcs", "bloom": "bloom", "jsonpb": "jsonpb", "txsort": "txsort", "coinset": "coinset", "builder": "gcs/builder"}

def run(cmd, cwd=None, timeout=600):
    p = subprocess.run(cmd, cwd=cwd, env=ENV, shell=isinstance(cmd, str), capture_output=True, text=True, timeout=timeout)
    return p.returncode, (p.stdout + p.stderr)

def main():
    prop, mdir = sys.argv[1], sys.argv[2].rstrip("/")
    keep = sys.argv[4] if len(sys.argv) > 4 and sys.argv[3] == "--keep" else None
    patch = os.path.join(mdir, "patch.diff")
    demo = os.path.join(mdir, "demo_test.go")
    src = open(demo).read()
    m = re.search(r"^package (\w+)", src, re.M)
    pkg = m.group(1)
    base = pkg[:-5] if pkg.endswith("_test") else pkg
    pdir = PKGDIR.get(base)
    modmode = os.path.exists(os.path.join(mdir, "go.mod"))
    tests = re.findall(r"^func (Test\w+)\(", src, re.M)
    race = "-race" in src.split("\npackage")[0]
    res = {"property": prop, "mutant": mdir, "package": base, "tests": tests}
    wt = tempfile.mkdtemp(prefix="mw-", dir="/tmp")
    os.rmdir(wt)
    rc, out = run(["git", "-C", "/repo", "worktree", "add", "--detach", wt, "HEAD"])
    try:
        rc, out = run(["git", "apply", "--check", patch], cwd=wt)
        res["applies"] = rc == 0
        if rc != 0:
            res["error"] = out.strip()[-300:]
            return res
        def demo_run():
            if modmode:
                d = tempfile.mkdtemp(prefix="md-", dir="/tmp")
                for f in ("go.mod", "go.sum", "demo_test.go"):
                    if os.path.exists(os.path.join(mdir, f)):
                        shutil.copy(os.path.join(mdir, f), d)
                gm = open(os.path.join(d, "go.mod")).read()
                gm = re.sub(r"(replace github.com/gcash/bchutil => )\S+", r"\g<1>" + wt, gm)
                open(os.path.join(d, "go.mod"), "w").write(gm)
                cmd = ["go", "test", "-vet=off", "-count=1"] + (["-race"] if race else []) + ["./..."]
                rc, out = run(cmd, cwd=d, timeout=900)
                shutil.rmtree(d, ignore_errors=True)
                return rc, out
            dst = os.path.join(wt, pdir, "zz_mutant_demo_test.go")
            shutil.copy(demo, dst)
            cmd = ["go", "test", "-vet=off", "-count=1", "-run", "^(" + "|".join(tests) + ")$"]
            if race:
                cmd.append("-race")
            cmd.append("./" + pdir)
            rc, out = run(cmd, cwd=wt)
            os.remove(dst)
            return rc, out
        rc0, out0 = demo_run()
        res["demo_passes_without"] = rc0 == 0
        run(["git", "apply", patch], cwd=wt)
        rcb, outb = run("go build ./... && go test -vet=off -count=1 ./...", cwd=wt)
        res["suite_passes_with"] = rcb == 0
        if rcb != 0:
            res["suite_output"] = outb[-400:]
        rc1, out1 = demo_run()
        res["demo_fails_with"] = rc1 != 0
        res["demo_output_with"] = "\n".join([l for l in out1.splitlines() if l.strip()][:6])[:600]
        # the check, against the patched scratch worktree (same sources as /repo + patch; /repo itself is left alone so
        # that several mutants can be evaluated at once)
        rc, out = run([os.environ.get("BCHVERIF_BIN", "/verif/bin/bchverif"), "-prop", prop, "-tier", "quick", "-noevidence", "-repo", wt, "-verif", "/verif"], cwd="/verif", timeout=1800)
        res["check_exit"] = rc
        res["check_violations"] = [l for l in out.splitlines() if "violated in" in l][:6]
    finally:
        run(["git", "-C", "/repo", "worktree", "remove", "--force", wt])
    res["confirmed"] = bool(res.get("applies") and res.get("demo_passes_without") and res.get("suite_passes_with") and res.get("demo_fails_with"))
    res["caught"] = res.get("check_exit") == 1
    if keep and res["confirmed"]:
        d = os.path.join("/verif/seeded", keep)
        os.makedirs(d, exist_ok=True)
        shutil.copy(patch, os.path.join(d, "patch.diff"))
        shutil.copy(demo, os.path.join(d, "demo_test.go"))
        notes = open(os.path.join(mdir, "notes.md")).read() if os.path.exists(os.path.join(mdir, "notes.md")) else ""
        meta = {"id": keep, "property": prop, "breaks": notes.strip().splitlines()[0:1], "needs_to_manifest": notes,
                "ran": {"suite with mutant": "go build ./... && go test -vet=off -count=1 ./... -> pass",
                        "demo with mutant": "fails: " + res.get("demo_output_with", "")[:300],
                        "demo without mutant": "passes",
                        "check": "bin/bchverif -prop %s -tier quick on /repo with the patch applied -> exit %s" % (prop, res.get("check_exit"))},
                "caught_by_check": res["caught"], "check_report": res.get("check_violations", [])}
        json.dump(meta, open(os.path.join(d, "meta.json"), "w"), indent=1)
    return res

if __name__ == "__main__":
    r = main()
    print(json.dumps(r, indent=1))

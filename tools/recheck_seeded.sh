#!/bin/sh
# Re-runs every kept sub-agent mutant (seeded/<id>/patch.diff) against the current checks:
# applies the patch to /repo, runs the property's quick check, undoes the patch at once.
# Prints one line per mutant: caught / MISSED / stale (patch no longer applies).  exit 2 if any is missed.
cd "$(dirname "$0")/.." || exit 2
rc=0
# one private Go build cache for all helper-inlined views of this run (see checker/main.go viewCacheDir)
BCHVERIF_VIEWCACHE=$(mktemp -d /tmp/bchverif-gocache-XXXXXX); export BCHVERIF_VIEWCACHE
trap 'rm -rf "$BCHVERIF_VIEWCACHE"' EXIT
# every patched tree leaves compiled packages in the Go build cache: keep it from filling the disk
trim_cache() {
	c=$(go env GOCACHE 2>/dev/null); [ -d "$c" ] || return 0
	kb=$(du -sk "$c" 2>/dev/null | cut -f1)
	[ "${kb:-0}" -gt 30000000 ] && go clean -cache 2>/dev/null
	return 0
}
n=0
for d in seeded/*/; do
	n=$((n+1)); [ $((n % 25)) -eq 0 ] && trim_cache
	id=$(basename "$d")
	prop=${id%%-*}
	if ! git -C /repo apply --check "$(pwd)/$d/patch.diff" 2>/dev/null; then
		echo "stale   $id"
		continue
	fi
	git -C /repo apply "$(pwd)/$d/patch.diff"
	out=$(bin/bchverif -prop "$prop" -tier quick -noevidence -repo /repo -verif "$(pwd)" 2>&1)
	e=$?
	git -C /repo checkout -q -- .
	git -C /repo clean -fdq
	if [ $e -eq 1 ]; then
		echo "caught  $id  $(echo "$out" | grep -m1 'violated in' | sed -E 's/.*(C[0-9]{2}\.[a-z]+) violated.*/\1/')"
	elif grep -q '"caught_by_check": false' "$d/meta.json"; then
		echo "outside $id (recorded as not caught: see its meta.json and DESIGN §11.4)"
	else
		echo "MISSED  $id (exit $e)"
		rc=2
	fi
done
find evidence/replay -type f -delete 2>/dev/null
exit $rc

#!/bin/sh
# usage: mkseed.sh <prop> <name> "<expect line>"   -- captures the current diff of /tmp/wt as a seed patch and resets /tmp/wt
set -e
prop=$1; name=$2; expect=$3
mkdir -p /verif/seeds/$prop
out=/verif/seeds/$prop/$name.patch
{ echo "# expect: $expect"; git -C /tmp/wt diff; } > $out
git -C /tmp/wt checkout -q -- .
grep -c '^@@' $out

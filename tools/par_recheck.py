#!/usr/bin/env python3
"""Parallel re-check of stored patches on scratch copies of /repo's working tree (never on /repo itself).

usage: par_recheck.py [-j N] [--all-props] [--bin path] <patch dir>...
  each <patch dir> holds patch.diff; its name starts with the property id (C07-agent3-m2, C01-v3).
  default: run the property the directory is named after; --all-props: all 19 quick checks.
Prints one line per directory:  <id> exit-codes-by-property  [rules that reported]
Development tool only: the registered checks run against /repo itself.
"""
import os, re, shutil, subprocess, sys, tempfile, json
from concurrent.futures import ThreadPoolExecutor

VERIF = os.path.dirname(os.path.dirname(os.path.abspath(__file__)))
PROPS = "C01 C02 C03 C04 C05 C06 C07 C08 C09 C10 C11 C12 C13 C14 C15 C16 C17 C18 C19 C20".split()
ENV = dict(os.environ, GOFLAGS="-mod=mod", GOPROXY="off", GOSUMDB="off", GOTOOLCHAIN="local", GOWORK="off")

def one(d, allprops, binp, props_override):
    d = d.rstrip("/")
    id_ = os.path.basename(d)
    prop = id_.split("-")[0].upper()
    wt = tempfile.mkdtemp(prefix="pr-", dir="/tmp")
    try:
        subprocess.run(["rsync", "-a", "--exclude", ".git", "/repo/", wt + "/"], check=True)
        p = subprocess.run(["git", "apply", "--unsafe-paths", "--directory=" + wt, os.path.join(os.path.abspath(d), "patch.diff")],
                           cwd="/", capture_output=True, text=True)
        if p.returncode != 0:
            p = subprocess.run(["patch", "-p1", "-s", "-i", os.path.join(os.path.abspath(d), "patch.diff")], cwd=wt, capture_output=True, text=True)
            if p.returncode != 0:
                return id_, "stale", {}, p.stdout[-200:] + p.stderr[-200:]
        res = {}
        rules = set()
        props = props_override or (PROPS if allprops else [prop])
        for q in props:
            r = subprocess.run([binp, "-prop", q, "-tier", "quick", "-noevidence", "-repo", wt, "-verif", VERIF] + (["-no-inline"] if os.environ.get("PAR_NO_INLINE") else []),
                               env=ENV, capture_output=True, text=True)
            res[q] = r.returncode
            if r.returncode != 0:
                for m in re.finditer(r"(C\d\d\.[a-z0-9]+) (?:violated|undecided|unresolved)", r.stdout + r.stderr):
                    rules.add(m.group(1))
                if r.returncode not in (0, 1):
                    rules.add("%s:exit%d" % (q, r.returncode))
        return id_, "ok", res, " ".join(sorted(rules))
    finally:
        shutil.rmtree(wt, ignore_errors=True)

def main():
    a = sys.argv[1:]
    j = 8; allp = False; binp = os.path.join(VERIF, "bin", "bchverif"); props = None
    dirs = []
    i = 0
    while i < len(a):
        if a[i] == "-j": j = int(a[i+1]); i += 2
        elif a[i] == "--all-props": allp = True; i += 1
        elif a[i] == "--bin": binp = a[i+1]; i += 2
        elif a[i] == "--props": props = a[i+1].split(","); i += 2
        else: dirs.append(a[i]); i += 1
    vc = tempfile.mkdtemp(prefix="bchverif-gocache-", dir="/tmp")
    # seed the private view cache with hard links to the default cache (dependencies stay warm, nothing is left behind)
    gc = subprocess.run(["go", "env", "GOCACHE"], capture_output=True, text=True).stdout.strip()
    if gc and os.path.isdir(gc):
        os.rmdir(vc)
        subprocess.run(["cp", "-al", gc, vc])
    ENV["BCHVERIF_VIEWCACHE"] = vc
    try:
        with ThreadPoolExecutor(j) as ex:
            futs = [ex.submit(one, d, allp, binp, props) for d in dirs]
            for f in futs:
                id_, st, res, info = f.result()
                if st != "ok":
                    print("%-22s STALE %s" % (id_, info.replace("\n", " ")), flush=True); continue
                bad = [q for q, rc in res.items() if rc != 0]
                print("%-22s %s %s | %s" % (id_, "flagged" if bad else "silent ", " ".join(bad), info), flush=True)
    finally:
        shutil.rmtree(vc, ignore_errors=True)

if __name__ == "__main__":
    main()

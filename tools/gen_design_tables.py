#!/usr/bin/env python3
"""Regenerates the generated part of DESIGN.md §11 (between the GENERATED markers) from
evidence/*.json, seeds/, seeded/*/meta.json and benign/*/status.json."""
import json, glob, os, re
V = os.path.dirname(os.path.dirname(os.path.abspath(__file__)))
PROPS = ["C01","C02","C03","C04","C05","C06","C07","C08","C09","C10","C11","C12","C13","C14","C15","C16","C17","C18","C19","C20"]
ADDED = json.load(open(os.path.join(V, "tools", "design_added.json")))
out = []
w = out.append
w("### 11.1 Rules as built\n")
w("Instances / floor are measured on the current tree by the quick tier (`evidence/<id>.json`).\n")
w("| property | rules (instances / floor) — obligations | added or changed during the build (trigger) |")
w("|---|---|---|")
for p in PROPS:
    ev = json.load(open(os.path.join(V, "evidence", p + ".json")))
    c = ev["coverage"]
    rs = ", ".join(f"{r.split('.')[1]} {v['instances']}/{v['floor']}" for r, v in sorted(c["rules"].items()))
    w(f"| {p} | {rs} — {c['obligations']} obligations ({c['discharged']} discharged, {c['excepted']} excepted, {c['known']} known) | {ADDED.get(p, '—')} |")
w("")
w("### 11.2 Seeds (`seeds/<prop>/*.patch`, run by the thorough tier and `tools/allseeds.sh`)\n")
w("`f…` hand-written faults, `m-…` sub-agent mutants pinned to the rule that should report them, `v…` hand-written behaviour-preserving variants, `b-…` sub-agent benign variants (§11.5). Expectation in the patch header.\n")
w("| property | fire seeds (rule expected) | silent seeds |")
w("|---|---|---|")
for p in PROPS:
    fire, silent = [], []
    for f in sorted(glob.glob(os.path.join(V, "seeds", p, "*.patch"))):
        exp = open(f, errors="replace").readline().strip().replace("# expect: ", "")
        name = os.path.basename(f)[:-6]
        if exp.startswith("silent"):
            silent.append(name)
        else:
            fire.append(f"{name} ({exp.split()[1] if len(exp.split()) > 1 else '?'})")
    w(f"| {p} | {'; '.join(fire)} | {'; '.join(silent)} |")
w("")
w("### 11.3 Sub-agent mutants (`seeded/<id>/`: patch.diff, demo_test.go, notes.md, meta.json)\n")
w("Each was confirmed in a scratch worktree (applies, builds, suite passes, demonstration fails with it and passes without it) and then applied to `/repo`, checked, and undone. Round 1 ids `-agent-`, round 2 `-agent2-`, round 3 `-agent3-`, round 4 `-agent4-`, round 5 `-agent5-`, round 6 `-agent6-`, round 7 `-agent7-` (small local slips).\n")
w("| id | change | reported by | history |")
w("|---|---|---|---|")
for d in sorted(glob.glob(os.path.join(V, "seeded", "*"))):
    mp = os.path.join(d, "meta.json")
    if not os.path.exists(mp):
        continue
    m = json.load(open(mp))
    b = (m.get("breaks") or [""])[0].lstrip("# ").strip().replace("|", "/")
    b = re.sub(r"^C\d\d\s*(r[234567]\s*)?mutant\s*\d\s*[-—–:]*\s*", "", b, flags=re.I)
    rules = []
    for l in m.get("check_report", []):
        mm = re.search(r"(C\d\d\.\w+) violated", l)
        if mm and mm.group(1) not in rules:
            rules.append(mm.group(1))
    rep = ", ".join(rules) if m.get("caught_by_check") else "**not caught**"
    w(f"| {os.path.basename(d)} | {b[:140]} | {rep} | {m.get('history', '')} |")
w("")
w("### 11.5 Benign variants (`benign/<prop>-v<k>/`)\n")
w("Behaviour-preserving refactorings written by sub-agents (three rounds: `-v`, `-w`, `-x`; each with a differential test against the unmodified tree). Every variant was applied to a scratch copy of `/repo`'s working tree and **all 20 checks** were run (`tools/par_recheck.py --all-props`; last full re-run after the mutation sweeps, with the helper-inlined view search). `silent` = no check raised anything; `flagged` = at least one rule reported it (a false alarm by construction), with the reason it was not generalised.\n")
w("| variant | refactoring | outcome |")
w("|---|---|---|")
ns = nf = 0
for d in sorted(glob.glob(os.path.join(V, "benign", "*"))):
    sp = os.path.join(d, "status.json")
    if not os.path.exists(sp):
        continue
    s = json.load(open(sp))
    if s["status"] == "silent":
        ns += 1
        oc = "silent" + (f" (after: {s['fixed_by']})" if s.get("fixed_by") else "")
    else:
        nf += 1
        oc = "flagged by " + ", ".join(s.get("rules", [])) + (" — " + s["reason"] if s.get("reason") else "")
    w(f"| {os.path.basename(d)} | {s.get('title', '')[:150]} | {oc} |")
w("")
w(f"Totals: {ns} silent, {nf} flagged of {ns + nf}.\n")
txt = "\n".join(out)
p = os.path.join(V, "DESIGN.md")
s = open(p).read()
a, b = "<!-- BEGIN GENERATED 11 -->", "<!-- END GENERATED 11 -->"
if a in s and b in s:
    s = s[: s.index(a) + len(a)] + "\n" + txt + "\n" + s[s.index(b):]
    open(p, "w").write(s)
    print("DESIGN.md §11 regenerated:", ns, "silent /", nf, "flagged variants")
else:
    print("markers not found")

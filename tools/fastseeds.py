#!/usr/bin/env python3
"""Development-time regression over seeds/<prop>/*.patch (the registered thorough tier runs the same seeds through
`bchverif -seeds-only`, with the helper-inlined view search; this tool skips that search for seeds expected to fire, which
is what makes it fast).  usage: fastseeds.py [-j N] [--bin path] [prop ...]"""
import os, re, subprocess, sys, tempfile, shutil, glob
from concurrent.futures import ThreadPoolExecutor
V = os.path.dirname(os.path.dirname(os.path.abspath(__file__)))
ENV = dict(os.environ, GOFLAGS="-mod=mod", GOPROXY="off", GOSUMDB="off", GOTOOLCHAIN="local", GOWORK="off")
def one(job):
    prop, path, binp = job
    exp = open(path, errors="replace").readline().strip().replace("# expect: ", "")
    d = tempfile.mkdtemp(prefix="fs-", dir="/tmp")
    try:
        subprocess.run(["rsync", "-a", "--exclude", ".git", "/repo/", d + "/"], check=True)
        body = "".join(l for l in open(path, errors="replace") if not l.startswith("# expect"))
        r = subprocess.run(["patch", "-p1", "-s", "--no-backup-if-mismatch"], input=body, text=True, cwd=d, capture_output=True)
        if r.returncode != 0:
            return (prop, os.path.basename(path), exp, "PATCH-FAIL", r.stdout[-200:])
        cmd = [binp, "-prop", prop, "-tier", "quick", "-noevidence", "-repo", d, "-verif", V]
        if not exp.startswith("silent") and not (os.environ.get("FASTSEEDS_VIEWS") and re.search(os.environ["FASTSEEDS_VIEWS"], os.path.basename(path))):
            cmd.append("-no-inline")
        c = subprocess.run(cmd, env=ENV, capture_output=True, text=True, errors="replace")
        rules = sorted(set(re.findall(r"(C\d\d\.[a-z0-9]+) violated", c.stdout)))
        if exp.startswith("silent"):
            return (prop, os.path.basename(path), exp, "ok" if c.returncode == 0 else "FALSE-ALARM", ",".join(rules))
        want = exp.split()[1] if len(exp.split()) > 1 else ""
        if c.returncode == 0:
            return (prop, os.path.basename(path), exp, "BLIND", "")
        return (prop, os.path.basename(path), exp, "ok" if (not want or any(x == want or x.startswith(want + ".") for x in rules)) else "OTHER-RULE", ",".join(rules))
    finally:
        shutil.rmtree(d, ignore_errors=True)
def main():
    a = sys.argv[1:]; j = 12; binp = os.path.join(V, "bin", "bchverif"); props = []
    i = 0
    while i < len(a):
        if a[i] == "-j": j = int(a[i+1]); i += 2
        elif a[i] == "--bin": binp = a[i+1]; i += 2
        else: props.append(a[i]); i += 1
    jobs = []
    for pd in sorted(glob.glob(os.path.join(V, "seeds", "*"))):
        p = os.path.basename(pd)
        if props and p not in props: continue
        for f in sorted(glob.glob(os.path.join(pd, "*.patch"))):
            if os.environ.get("FASTSEEDS_ONLY") and not re.search(os.environ["FASTSEEDS_ONLY"], os.path.basename(f)):
                continue
            jobs.append((p, f, binp))
    print("seeds:", len(jobs), flush=True)
    cnt = {}
    with ThreadPoolExecutor(j) as ex:
        for prop, name, exp, st, info in ex.map(one, jobs):
            cnt[st] = cnt.get(st, 0) + 1
            if st != "ok":
                print("%-11s %s %s expect=%r got=%s" % (st, prop, name, exp, info), flush=True)
    print("totals:", cnt, flush=True)
if __name__ == "__main__":
    main()

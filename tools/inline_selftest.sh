#!/bin/sh
# Tool self-test for checker/inline.go (NOT a property check and not registered in MANIFEST.json):
# expands every expandable same-package helper call of the repository everywhere (up to 3 rounds), writes the
# rewritten files over a scratch worktree of /repo HEAD under /tmp, and runs the repository's own build and test
# suite on that tree.  The rewritten program must type-check and behave like the original on the whole suite;
# this is how the `:=`-redeclaration and name-capture mistakes of the first version of the inliner were found.
export GOFLAGS=-mod=mod GOPROXY=off GOSUMDB=off GOTOOLCHAIN=local
cd "$(dirname "$0")/.." || exit 2
wt=$(mktemp -d /tmp/inl-selftest-XXXX); rmdir "$wt"
git -C /repo worktree add --detach "$wt" HEAD >/dev/null 2>&1 || exit 2
out=$(mktemp -d /tmp/inl-out-XXXX)
bin/bchverif -inline-all-to "$out" -repo "$wt" -verif "$(pwd)" || rc=1
cp -r "$out"/. "$wt"/
( cd "$wt" && go build ./... && go test -vet=off -count=1 ./... ) > "$out/test.log" 2>&1 || rc=1
grep -v '^ok\|no test files' "$out/test.log"
git -C /repo worktree remove --force "$wt"; rm -rf "$out"
[ -z "$rc" ] && echo "inline self-test: rewritten tree builds and passes the suite"
exit ${rc:-0}

#!/usr/bin/env python3
"""Generates /verif/MANIFEST.json from the table below (kept in one place so it stays valid)."""
import json, os, subprocess
V = os.path.dirname(os.path.dirname(os.path.abspath(__file__)))
impl = subprocess.run([os.path.join(V, "bin/bchverif"), "-list"], capture_output=True, text=True).stdout.split()

CHECKS = {
 "C20": dict(
  technique="lockset data-flow over go/ssa (must-held mutex per path, inter-procedural lock-required fix-point) + write-effect (origin) analysis",
  text="For every path of every function in the repository: each load/store of bloom.Filter's guarded field (and of memory reached through it) is under the filter's mutex; lock-required helpers are unexported, never used as values and only called with the lock held; every exported method is exactly one critical section, released on every return; no re-entrant acquisition. gcs.Filter: no method writes receiver-reachable memory and the stored data slice is freshly allocated. This is a sound lockset argument over all interleavings (level 'other': structural clauses decided on all paths, not the runtime histories).",
  note="Trusted: sync.Mutex semantics, go/ssa lowering, out-of-repo callees do not touch the mutex. Not decided: use of the *wire.MsgFilterLoad after the accessor handed it out / after the caller handed it in.",
  ref="§3 C20, §2.5, §2.6"),
}
CHECKS["C15"] = dict(
  technique="origin / write-effect (points-to) analysis over go/ssa: field classification, aliasing of stored slices, frame conditions; dominance for zero-then-drop",
  text="Frame argument over every history of ExtendedKey operations: every []byte field is either wiped in place by Zero or never written element-wise anywhere; no store puts into a wiped field of one key a slice aliasing a wiped buffer of another key or a global (all construction sites, through the raw constructor); only Zero writes key-buffer bytes and methods write only receiver fields; Zero wipes each buffer completely (full-range loop / clear) on every path before dropping it and clears the flags String/ECPrivKey test. Decides the structural clauses, not serialisation equality.",
  note="Trusted: out-of-repo callees return fresh slices; go/ssa. Assumed: external callers of NewExtendedKey do not share the buffers they pass in.",
  ref="§3 C15, §2.5")
CHECKS["C07"] = dict(
  technique="write-effect analysis (argument purity), constant-table evaluation, must-pass-through guard facts with a linear-arithmetic entailment, symbolic byte-sequence terms for the checksum comparison",
  text="No path of the seven Base58/Base58Check/bech32 entry points (in-repo callees included) writes memory reachable from an argument; alphabet/decode-table agreement symbol by symbol against the Bitcoin and BIP173 constants; every accepting return of CheckDecode is behind a full 4-byte SHA256d comparison over input[:len-4] with len>=5, bech32.Decode behind remainder==1; BIP173 length, separator, character-range, single-case guards and ConvertBits padding rejection lie on every accepting path. Structural clauses only; bijectivity of the radix arithmetic is not decided.",
  note="Trusted: out-of-repo callees read-only on slice arguments except the listed writer table; spec constants. Not decided: value-level inverse property.",
  ref="§3 C07")
CHECKS["C13"] = dict(
  technique="structural agreement of the hash-to-range pipeline at every keyed-hash call site + forward taint (64-bit set values must not reach a narrowing conversion) over go/ssa",
  text="All keyed-hash sites of package gcs (builder, Match, ZipMatchAny, HashMatchAny) feed the same range-reduction function with the hi/lo halves of the same modulus field and use the reduced value only for append / compare / map key; no reduced hash, decoded delta or sum of deltas reaches a narrowing conversion on any path (the strategies cannot disagree on a low-32-bit collision); MatchAny forwards its own arguments unchanged. Necessary structural conditions of 'no false negatives / strategies agree'; the Golomb-Rice codec round trip itself is not decided.",
  note="Trusted: siphash.Sum64, bstream reader. Not decided: bit-stream codec arithmetic, sortedness.",
  ref="§3 C13")
CHECKS["C12"] = dict(
  technique="must-pass-through branch facts (CFG edge-removal reachability) + linear entailment over available-load atoms; dominance of cursor guards; who-writes-the-latch scan",
  text="Every non-nil return of ExtractMatches lies on all paths behind each rejection test of the statement with exactly the stated relation (count != 0, count <= MaxTxnCount, #hashes <= count, #bits >= #hashes; after the traversal: latch clear, ceil(bitsUsed/8) = ceil(#bits/8), hashesUsed = #hashes); in the traversal both cursor reads are proved in range on every path, their out-of-range edges set the latch and return, equal children set the latch; the latch is only ever stored true after construction. Field roles are discovered from the code (constructor, cursor reads), not named. Value-level root equality is not decided.",
  note="Trusted: HashMerkleBranches, Hash.IsEqual. Assumes 64-bit or 32-bit int as configured; len() of the slices fits the uint32 conversions the code performs (the conversions are treated as opaque atoms, so no wrap is assumed for the proof).",
  ref="§3 C12, §2.2, §2.3")
CHECKS["C08"] = dict(
  technique="obligation enumeration over go/ssa + linear-arithmetic bounds prover (dominating branch facts, merge-point case split, phi-web induction, available-loads aliasing, inter-procedural return facts and constant-parameter facts), loop classification, recursion descent, allocation-size provenance",
  text="For all 73 in-repo functions reachable from the statement's parsing entry points, on every path: each index / slice / division / signed shift / fixed-width read is proved in range or non-zero (5 named exceptions, each with a premise the prover still checks); each single-result type assertion is dominated by a test of the same value; each make() size is a constant or bounded by input lengths (never by a decoded count); each loop is a range loop, a counted or decreasing loop with an invariant bound, or consumes input each iteration; each recursive cycle descends. An unproved obligation is reported, never assumed. Panics inside third-party callees, nil pointers in hand-built messages, stack depth and the exact time bound are not decided.",
  note="Trusted: out-of-repo callees total except the listed preconditioned ones; sort.Slice callback indices in range; len() < 2^50; int arithmetic on lengths exact; bloom filter within the wire size limit for the one no-wrap premise.",
  ref="§3 C08, §2.3")
CHECKS["C02"] = dict(
  technique="classification-chain and default-arm exhaustiveness over go/ssa + typed syntax, must-pass-through guard facts with linear entailment, structural match of the regrouping reference condition, checksum-guard propagation through in-repo decoders",
  text="In every function reachable from the decoding entry points: each classification of an input-derived value (tagged switch / if-else-if chain over constants) sends unlisted values only to error returns, and each switch default arm rejects; every accepting return of the CashAddr payload decoder knows len(regrouped) == 21, regrouping runs 5->8 without padding on decode and 8->5 with padding on encode, a prefix separator was seen and mixed case rejects; the regrouping function rejects exactly under the reference condition (bits >= fromBits, or non-zero padding bits) when not padding; every accepting return of DecodeCashAddress is behind the remainder test and every accepting return of DecodeAddress behind a checksum-verifying decoder or is the raw public-key arm. One known finding (public-key format byte 0x05) is listed in known_findings.json. Value-level injectivity of decoding is not decided.",
  note="Trusted: CashAddr specification constants; bchec.ParsePubKey. The remainder function itself is checked by C03.",
  ref="§3 C02")
CHECKS["C03"] = dict(
  technique="structural recogniser over go/ssa that extracts the LFSR parameters (register split, taps, generator constants, init, final xor) of both remainder functions and compares them with the specifications; structural checks of the acceptance comparison, its argument and the decode tables",
  text="Both remainder functions (reached from DecodeCashAddress and bech32.Decode, not looked up by name) are recognised as the specified LFSRs: c>>K / (c&M)<<5 split, initial value 1, exactly feedback bits 0..4 each tied to the specified generator constant (unrolled or table-driven form), over every input symbol; acceptance compares the whole remainder with the specified constant over expand(prefix)||payload with the payload whole and the specified prefix expansion; symbol decoding is injective and mixed case rejects. Given these, detection of <=5 (CashAddr) / <=4 (bech32) substitutions is the distance theorem of the specifications, which is trusted mathematics and not re-proved here.",
  note="Trusted: the BCH distance claims and generator constants of the CashAddr and BIP173 specifications. A rewrite into a different algorithm (e.g. byte-at-a-time table) is reported as undecided.",
  ref="§3 C03")
CHECKS["C04"] = dict(
  technique="taint-style use analysis of big.Int.Bytes() results (every use must be a structurally recognised 32-byte pad or the len<32 edge idiom), must-pass-through guard facts and the bounds prover for the no-wrap depth increment",
  text="Narrow by design: the leading-zero bug class cannot occur (every minimal-length big-integer encoding in hdkeychain is left-padded to 32 bytes before it becomes key material or is serialised) and the refusal guards dominate derivation: depth+1 proved not to wrap, hardened-from-public rejects with the constant 2^31, both scalar range tests reject in Child and NewMaster, seed length within 16..64. Equality with BIP32 outputs for every seed and path is NOT decided (value level; constrained by the suite's vectors).",
  note="Trusted: math/big, hmac, bchec arithmetic; BIP32 constants.",
  ref="§3 C04")
CHECKS["C05"] = dict(
  technique="must-pass-through guard facts + linear entailment, symbolic byte-sequence terms for the checksum comparison and the key windows, per-arm (edge) accept-point analysis",
  text="Every accepting return of NewKeyFromString knows len(decoded)==82, lies behind a full 4-byte SHA256d comparison over decoded[:len-4]; the accepting path is split by the first key byte: on the private arm both scalar range tests reject and the key handed on is decoded[46:78]; on the public arm bchec.ParsePubKey succeeded on decoded[45:78] which is the key handed on. Round-trip equality for every key is not decided (the shape-level ingredient is C04.pad).",
  note="Trusted: base58.Decode (C07), ParsePubKey, DoubleHashB.",
  ref="§3 C05")
CHECKS["C06"] = dict(
  technique="bounds prover with merge-point case split (length alternatives), phi-of-constants edge facts, symbolic byte-sequence terms per length alternative, writer/reader field agreement, pad-use analysis",
  text="Every accepting return of DecodeWIF knows 37<=len<=38; the compressed flag is set only where len==38 and decoded[33]==0x01; acceptance lies behind the full 4-byte SHA256d comparison over decoded[:len-4] on each length alternative; the scalar in WIF.String() is padded to 32 bytes; the network byte is one field written from Params.PrivateKeyID / decoded[0], tested by IsForNet against the same Params field and emitted first; SerializePubKey serialises compressed exactly on the flag. Round-trip equality and that the public point belongs to the key are not decided.",
  note="Trusted: base58 (C07), bchec serialisers, DoubleHashB.",
  ref="§3 C06")
CHECKS["C01"] = dict(
  technique="constant-table evaluation against the specifications, inter-procedural symbolic tracing of what each EncodeAddress hands to the packer / Base58Check (address-type constant, byte windows), matching against the decode arms and classifier of DecodeAddress, writer/reader field agreement, symbolic digest composition",
  text="Alphabet and decode tables agree symbol by symbol with the specifications; for every address type the encoder's (address-type constant, bytes arriving after every re-slice) is accepted by the packer, loses no byte of the type's hash array and is mapped back by a reachable decode arm to the same Go type, with packer and classifier agreeing on version bytes; the hex public-key arm uses the curve package's key lengths and String/ScriptAddress share one serialiser; IsForNet tests the Params field the constructors store; script-taking constructors hash with RIPEMD160(SHA256) / SHA256(SHA256). The unfinished P2SH32 support is reported as five KNOWN-FINDING entries. String equality for every hash, convertBits arithmetic and the Base58 radix conversion are not decided.",
  note="Trusted: CashAddr / Base58Check constants; chaincfg.Params field names. Known finding K1 (P2SH32 truncation, dead decode arms) is listed in known_findings.json.",
  ref="§3 C01, §6 K1")
CHECKS["C09"] = dict(
  technique="canonical-term comparison (writer vs reader, sibling serialisers) over go/ssa, structural match of the BIP37 bit-index formula, constant checks against the wire package, dominance of nil guards",
  text="The bit array is only ever OR-ed into; the function that sets bits and the function that tests them compute byte index, bit mask, loop range and hash arguments as identical canonical terms (so every inserted item is found); the two outpoint serialisers fill txid at 0 and the little-endian index at 32 identically; the bit number is MurmurHash3(i*0xFBA4C795+tweak, item) mod 8*len(filter); NewFilter clamps size and hash-function count with the wire constants; writer and reader touch the message only behind a nil test. MurmurHash3's arithmetic, wrap-around behaviour and the floating-point sizing values are not decided.",
  note="Trusted: BIP37 constants; binary.LittleEndian.PutUint32; the ten MurmurHash3 suite vectors pin the hash itself.",
  ref="§3 C09, §2.4")
CHECKS["C10"] = dict(
  technique="CFG loop-exit and dominance analysis, argument-provenance matching, classification-chain extraction against txscript/wire constants, must-pass-through facts",
  text="Narrow by design: the transaction matcher leaves its output loop only by exhaustion and gives every verdict after it; the (script, txid, index) passed to the update helper belong to the same output; the helper inserts unconditionally for BloomUpdateAll, exactly for {PubKeyTy, MultiSigTy} for P2PubkeyOnly and never otherwise; the block scanner visits every transaction, registers inputs in the spender index in the checking iteration, and the checker records matches and re-checks registered dependants on the matched edge. The match relation over all scripts, spend graphs and permutations is not decided.",
  note="Trusted: txscript.GetScriptClass/PushedData; BIP37 flag semantics; wire field names.",
  ref="§3 C10")
CHECKS["C11"] = dict(
  technique="canonical-term comparison of sibling implementations up to field renaming (tree width, traversal children / guards / base cases, subtree hash, flag packing), CFG ordering of flag / hash / children events, provenance comparison of message fields",
  text="The three tree-width functions are one canonical term and equal BIP37's formula; the two builders' and the extractor's traversals recurse on (h-1, 2p) then (h-1, 2p+1), guard the right child with 2p+1 < width(h-1), stop on h = 0 or a clear flag and handle flag, hash, children in that order; the builders agree on the subtree hash (right-edge duplication) and on the leaf range that sets a parent flag; flag bits are packed and unpacked at (i/8, i%8) with ceil(bits/8) bytes; the two filter-driven builders use the same match-set function and fill matched bits, index list, hashes and message fields from the same sources. That the emitted proof is the canonical BIP37 tree for every subset, and merkle-root equality, are not decided.",
  note="Trusted: blockchain.HashMerkleBranches; wire.MsgMerkleBlock.AddTxHash.",
  ref="§3 C11, §2.4")
CHECKS["C14"] = dict(
  technique="inter-procedural constant reaching through the With... chain, symbolic byte windows, ordered writer-call sequences, must-pass-through facts for content inclusion, structural latch check of every builder method, exact polynomial normalisation (integer polynomials over 32-bit digits and floor atoms, with per-value upper bounds) of the limb multiplication",
  text="DefaultP=19 and DefaultM=784931 and both block-filter entry points reach the P and M setters with exactly these constants; the key is hash[0:16]; NBytes/NPBytes/PBytes write VarInt(N) [, P], data in the stated order and FromNBytes reads the VarInt before handing the rest on; spent outpoints are added only for transaction index != 0 and scripts only when non-empty, de-duplicated through a map keyed by the entry bytes; filter hash = SHA256d(NBytes()), header = SHA256d(filter hash at 0 || previous header at 32); every chain method tests the error latch first and returns the builder untouched, terminal methods report the latched error, P>32 and M>2^32-1 set the latch. The Golomb-Rice bit stream as a value-level encoding is not decided (the 64x64->128 multiply is: see the sweep clause below).",
  note="Trusted: wire VarInt = CompactSize; chainhash.DoubleHashH; constants stated in the property.",
  ref="§3 C14")
CHECKS["C16"] = dict(
  technique="who-may-write analysis of memo fields (discovered from accessor shape), origin analysis of stored values, dominance of cache-empty edges, index-consistency of the sparse cache, bounds prover with a checked class invariant",
  text="Every memo field of Block / Tx is stored only on a fresh object by a constructor or by its own accessor on the cache-empty edge, with a value originating from the wrapped message or fresh memory only; accessors return the memo on the cached path and store it before returning on the computing path; each store into the per-index cache wraps msg.Transactions[k] with index k at slot k, the cache is always sized len(msg.Transactions) and the completion flag is set only after the filling loop; all index expressions of Tx(i) are proved in range from the guard. Byte equality with a fresh serialisation and TxLoc are not decided; bytes supplied to the ...FromBytes constructors are trusted.",
  note="Trusted: wire serialisation/hash functions; callers do not mutate the wire message after wrapping it.",
  ref="§3 C16")
CHECKS["C18"] = dict(
  technique="origin / write-effect analysis (non-destructiveness, comparator purity), structural match of Swap, agreement of the sortable view types; decision of each comparator over the finite set of orderings of its key fields (abstract evaluation of its CFG, no byte values) plus structural recognition of the complete mirror-swap reversal / byte walk that makes the transaction id big-endian",
  text="Sort sorts the slices of a fresh deep copy (not the argument's), returns that copy and writes nothing reachable from its parameter; Len and Less write only their locals and Swap exchanges exactly s[i] and s[j] (so the result is a permutation); InPlaceSort, Sort and IsSorted order inputs and outputs through the same two sortable types (one order, hence idempotence). Each comparator consults its elements only through order relations on the BIP69 key fields (anything else, e.g. a length, is reported undecided) and, evaluated over every consistent ordering (15 for inputs, 9 for outputs), agrees with the BIP69 order; the previous transaction id is compared from its last stored byte down to the first (both 32-byte copies reversed by a complete mirror-swap loop before bytes.Compare, or a byte walk from index 31 to 0). bytes.Compare, sort.Sort and MsgTx.Copy themselves are trusted, not decided.",
  note="Trusted: wire.MsgTx.Copy deep-copies every field; sort.Sort permutes only via Swap and decides only via Less; bytes.Compare is the lexicographic order.",
  ref="§3 C18, §2.5")
CHECKS["C19"] = dict(
  technique="pairing rule over go/ssa for the totals; forward data-flow (typestate) over every CoinSelect method tracking, per coin set, validity of the target predicate and of the average test for the current contents and a linear upper bound on the coin count (loop-counter invariants guessed and verified inductively, Fourier-Motzkin entailment at the returns); structural recognition of the prefix scan, of the rounded-up quotient and of the complement composition of the top-up; who-writes rule for further content-derived fields",
  text="Totals clause decided for all histories: every PushBack/Remove on a coin set's list sits in a function that adds/subtracts that same coin's Value() and ValueAge() to the respective total exactly once on every path through the mutation, bulk mutations are rejected, no other function writes the totals, and any further field kept about the contents is written at every list mutation. A transaction built from a set spends coins[i] at input i. For every success return of every selector, on every path: the returned set's total satisfies satisfiesTargetValue(target, MinChangeAmount, total) for its current contents, it holds at most MaxInputs coins (linear entailment), and for the min-priority selector its average value-age meets the minimum (premises checked structurally: candidates sorted ascending by ValueAge, offered slice starts at the first coin meeting the minimum, top-up minimum is the rounded-up share of the missing value-age over at most L coins). The prefix scan pushes coins[0], coins[1], ... without skipping and tests the target after every push (shortest qualifying prefix); the min-number / max-value-age selectors sort a fresh copy descending by Value()/ValueAge() and delegate with unchanged limits. Three genuine defects found by these rules were fixed (F10-F12). Not decided: distinctness of the coins, overflow of the totals.",
  note="Trusted: container/list semantics; sort.Sort/Reverse (in particular that sorting establishes the order the cut-off argument uses).",
  ref="§3 C19, §11")

ADDED = {
 "C01": " Added during the build: DecodeAddress gives a verdict in its CashAddr stage only behind err == nil of the CashAddr decoder (entry length guard excepted with its premise), enters the public-key stage on the string's length alone, and refuses only for reasons drawn from the stage results (rejection vocabulary); script-taking constructors reject no script themselves; lazily cached renderings of an address follow what they were computed from (memo coherence).",
 "C02": " Added during the build: no decoder rewrites its input with a normalising or Unicode case-mapping function, case flags test exact ASCII ranges, Base58 symbols are looked up per byte; a decoded legacy address is built from the decoded version byte and only after both registry lookups (collision test evaluated); all eight bits of the CashAddr version byte take part in its classification; the CashAddr decoder is handed the whole input, never a part of it.",
 "C04": " Added during the build: NewMaster, Child and Neuter write nothing reachable from the seed, the parent key or package-level state (the public-key memo field excepted, kept coherent by C15.memo).",
 "C05": " Added during the build: the string is not normalised before Base58 decoding; every rejection test of NewKeyFromString looks only at the decoded length, the checksum, the key-type byte and the validity of the key material (no further reason to refuse).",
 "C06": " Added during the build: the string is not normalised before Base58 decoding; every rejection test of DecodeWIF looks only at the decoded length, the compression marker and the checksum (no white-list of network bytes); a cached serialisation may not depend on exported fields.",
 "C08": " As built: 79 functions from 32 entry points (bloom.GetMatchedIndices added), 6 named exceptions; a recursion is also accepted when it is a graph walk behind a monotone visited set. One known finding (K3: exponential re-check in bloom.GetMatchedIndices) is listed in known_findings.json.",
 "C09": " Added during the build: every branch of the bit-setting and bit-testing functions reads only the loaded message, the hashes of the item and the loop counter (no shadow state, no look at the item itself); a clear bit answers absent and exhausting the hash functions answers present; every exit of the hash helper returns the reduced hash; Add/AddHash/AddOutPoint/Matches/MatchesOutPoint and their outpoint helpers are branch-free serialise-and-delegate wrappers; LoadFilter and Reload install the message they are given.",
 "C10": " Added during the build: each transaction's inputs enter the spender index unconditionally in the iteration that checks it; every (re-)check matches the transaction against the current filter; the filter is updated only for an output whose own data push matched (directly or through a flag local to that iteration).",
 "C11": " Added during the build: the extractor applies no rejection rule beyond the specification's; each of the three builders collects matched positions inside the loop over the block's transactions by that loop's index (block order, no repeats); a node's flag is the OR of the matched bits of its leaf range.",
 "C12": " Added during the build (after fixing defect F13): ExtractMatches resets both cursors, the latch and the two match lists before the traversal, so asking the same object twice cannot resume from a rejected traversal; the equal-children comparison sits in the same block as the right child's computation (no inner node is exempt).",
 "C13": " Added during the build: in each query loop every decoded delta is accumulated and every element compared or indexed before the next read; the element reader assembles quotient*2^P + remainder at 64 bits with the filter's own P; every hashing loop ranges over the whole item list and hashes every element; the index map a query fills is allocated by that call (sync.Pool results are not fresh); the builder's Golomb-Rice writer is recognised as quotient one-bits, a zero bit, low P bits of the same delta (another encoder is reported undecided).",
 "C14": " Added during the build: the range reduction is recognised as the schoolbook high-word product (another algorithm is reported undecided); the block-filter content rule is exact (no further exclusion); every successful return of GetFilterHash is DoubleHashH(NBytes); the builder's cached results follow the parameters they were built from (memo coherence); the shared Golomb-Rice writer recogniser.",
 "C15": " Added during the build: C15.fresh covers every []byte buffer held by another key; lazily filled fields of a key (the public-key memo, any future one) are refreshed, dropped or wiped whenever what they were computed from is assigned.",
 "C16": " Added during the build: every Block/Tx method indexing the caches is proved in range; the cached Tx hash is the wrapped message's own hash; every lazily filled field has a recognised write-once accessor; values from sync.Pool are not fresh memory; TxLoc returns the wire decoder's result over the block's own serialisation.",
}
for k, v in ADDED.items():
    CHECKS[k]["text"] += v
ADDED3 = {
 "C01": " Round 3: a piece of the input compared with a network prefix is cut with bounds depending on that prefix's length only; the functions of address.go, hash160/256.go and base58 keep no unguarded mutable package-level state.",
 "C02": " Round 3: in-place case folding of a copy of the input touches only bytes proved to lie in 'A'..'Z'; the case-folded input reaches the CashAddr decoder only behind a prepended prefix.",
 "C03": " Round 3: bech32 symbol decoding is the position in the searched BIP173 charset or a reverse table that inverts it with every other entry rejected (tables filled at package initialisation are constant-folded); the whole-input and canonical-input clauses are filed under C03.inject too.",
 "C04": " Round 3: no unguarded package-level state in hdkeychain (scratch hash / HMAC objects); the bytes of the version field, handed from key to key by reference, are never written in place; memo coherence of ExtendedKey.",
 "C05": " Round 3: no unguarded package-level state in hdkeychain and base58 (math/big scratch values); a memoised serialisation follows SetNet and Zero.",
 "C06": " Round 3: no unguarded package-level state in wif.go / base58 (shared hash states).",
 "C07": " Round 3: a positional value accumulated in a machine word cannot wrap (radix^digits <= 2^width from the conditions dominating the loop or every call); reverse-table form of the bech32 decode table; no unguarded package-level state.",
 "C08": " Round 3: a counted loop that calls a fallible in-repo reader on every iteration is left when the call fails (C08.eof); a pointer an in-repo function may return as nil is tested before it is dereferenced or handed to code outside the repository (C08.nil).",
 "C09": " Round 3: hashing, insertion and query functions never write through the element they are given; no unguarded package-level state.",
 "C10": " Round 3: every data push read from a script is handed, whenever it is read, to a function that tests it for membership on all of its paths; the spender index is many-valued (append onto the entry under the same key) and every registered spender is re-checked.",
 "C11": " Round 3: the set both builders prove comes from a scanner whose spender index loses no spender (C11.select); the extractor's unpacking may go through a byte-to-bits table, whose contents are folded from the package initialiser and compared with (f>>b)&1.",
 "C12": " Round 3: the constructor expands all 8*len(Flags) flag bits, bit b of byte k to position 8k+b (C12.unpack); recording a match depends on the node's height, its flag bit and the cursors only (C12.matches).",
 "C14": " Round 3: the builder hashes every item of its input and its encode loop ranges over the very slice that was sorted (no entry dropped or added in between) (C14.every).",
 "C15": " Round 3: inside one key a wiped buffer and a buffer shared by reference are disjoint windows of any slice they are both cut from; Zero's wipe-before-drop ordering also holds for written-out loops.",
 "C16": " Round 3: a constructor caches as serialisation only nil or its caller's serialisation argument.",
}
for k, v in ADDED3.items():
    CHECKS[k]["text"] += v
ADDED4 = {
 "C02": " Round 4: whether the prefix is prepended is decided from the input and the requested network's own two prefixes only.",
 "C03": " Round 4: a character outside the bech32 charset is refused on the spot (the not-found edge reaches no accepting return).",
 "C04": " Round 4: no exported method of ExtendedKey returns a reference into the key's own storage; append-style library helpers count as writes into their first argument.",
 "C05": " Round 4: NewExtendedKey stores every argument in its field unchanged.",
 "C06": " Round 4: nothing writes the key object the key parser returned before DecodeWIF hands it out.",
 "C07": " Round 4: every index, slice, division and shift reachable from the base58 / bech32 decoders is proved in range (the panic-freedom obligations of C08, filed here too).",
 "C10": " Round 4: every exit of the matcher that may answer false comes after the input loop; a condition the flag rule cannot evaluate is taken against the insertion where BIP37 demands it.",
 "C11": " Round 4: every root-returning exit of ExtractMatches comes after the flag-driven traversal.",
 "C12": " Round 4: the height loop is left only when the level is one node wide.",
 "C13": " Round 4: no exported method of gcs.Filter writes its arguments or returns the filter's own storage; the query methods are proved panic-free.",
 "C14": " Round 4: the From* constructors refuse for read errors and the bounds on N and P only; the stored filter data is the bit writer's Bytes().",
 "C16": " Round 4: the accessor of a caller-fillable slice memo tests its length, not its nil-ness.",
 "C18": " Round 4: a path through InPlaceSort that skips a sort must know that list has fewer than two entries.",
 "C20": " Round 4: no exported method of gcs.Filter writes memory reachable from its arguments or returns memory reachable from the receiver.",
}
for k, v in ADDED4.items():
    CHECKS[k]["text"] += v
ADDED5 = {
 "C01": " Round 5: the hash-taking constructors use the hash only through len / copy (every hash of the right length is accepted); big-integer bytes in the root package are padded before use.",
 "C02": " Round 5 (clauses shared with C01, filed here too): IsForNet compares the stored field with the Params field the constructors read; the raw public-key arm accepts exactly the curve package's two key lengths.",
 "C04": " Round 5: Neuter refuses a key only on chaincfg's answer for its version bytes.",
 "C05": " Round 5: String and NewKeyFromString write nothing reachable from the key or their arguments (a bytes.Buffer built over a key slice counts as writing it); every minimal-length big-integer encoding in hdkeychain is padded before use.",
 "C06": " Round 5: NewWIF refuses for its network argument only.",
 "C10": " Round 5: every input's spent outpoint is tested in the iteration that looks at that input; the transaction id used is the wrapped message's own hash (C16's memo clauses for bchutil.Tx).",
 "C11": " Round 5: the builders' leaves are block.Transactions(), whose slot k wraps transaction k (C16's index clause).",
 "C12": " Round 5: the extractor's width function, right-child guard and recursion tuple agree with the builders' (C11's shape clauses for the extractor).",
 "C13": " Round 5: the loop that fills the hash strategy's index is left only on the bit reader's error result and every value read is inserted.",
 "C14": " Round 5: the builder keeps its own copy of every entry, and every element handed to the filter constructor comes out of a range over the de-duplicating map.",
 "C16": " Round 5: no function stores through a *chainhash.Hash it did not allocate (the hash accessors hand out pointers into the memos); a constructor that decodes the message from its byte argument caches only the part the decoder consumed (defect F14, fixed).",
 "C20": " Round 5: an exported self-locking method writes nothing its arguments point to outside the critical section.",
}
for k, v in ADDED5.items():
    CHECKS[k]["text"] += v
ADDED6 = {
 "C01": " Round 6: DecodeAddress prepares its input as C02 requires (whole input, own prefixes, canonical input; total ASCII folding; no shadowed prefix case); functions taking or returning an address leave their arguments untouched.",
 "C02": " Round 6 (shared with C01): classifier, packer and decode arms agree on version bytes and payload lengths; address operations leave their arguments untouched; the case-folding helper lowers every upper-case letter of the whole string.",
 "C03": " Round 6: every symbol that is verified is the unmodified table value of an input character.",
 "C05": " Round 6: derivation from a parsed key leaves the key untouched (C04's purity and memo clauses); a fixed-length digit buffer of a Base58 conversion grows by at least ln58/ln256 resp. ln256/ln58 per symbol.",
 "C06": " Round 6: fixed-length digit buffers of the Base58 conversion are long enough (ratio test).",
 "C07": " Round 6: fixed-length digit buffers of the Base58 conversion are long enough (K1/K2 >= 0.73219... decoding, >= 1.36565... encoding); hand-written case folding in bech32 touches upper-case letters only.",
 "C10": " Round 6: the data pushes tested are txscript.PushedData results.",
 "C11": " Round 6: the set-driven builder decides membership by an equality scan of the whole set.",
 "C13": " Round 6: the hashed query that is merged with the decoded filter is sorted, at every call site of the merge.",
 "C14": " Round 6: every store to the reduction range is the plain product of element count and M; a rebuilt filter owns its bytes.",
 "C15": " Round 6: a key is never copied as a whole struct; no goroutine is handed key memory.",
 "C20": " Round 6: no second Filter is built around the guarded state of a filter.",
}
for k, v in ADDED6.items():
    CHECKS[k]["text"] += v
ADDED6B = {
 "C01": " The Base58 / Base58Check layer under legacy addresses satisfies C07's table, checksum, exactness and purity clauses (filed as C01.base58).",
 "C02": " Likewise C02.base58; no unguarded package-level state behind the decoders (C02.shared).",
 "C03": " No unguarded package-level state behind the checksum functions (C03.shared).",
 "C05": " The Base58 layer satisfies C07's table, checksum, exactness and purity clauses (C05.base58).",
 "C06": " The Base58 layer satisfies C07's table, checksum, exactness and purity clauses (C06.base58).",
 "C10": " The filter primitives satisfy C09's agreement, formula, monotonicity, unloaded-filter and decision clauses (C10.filter); no unguarded package-level state (C10.shared).",
 "C11": " No unguarded package-level state behind the builders (C11.shared).",
 "C12": " No unguarded package-level state behind extraction (C12.shared).",
 "C13": " No unguarded package-level state in package gcs (C13.shared).",
 "C14": " No unguarded package-level state in gcs and gcs/builder (C14.shared).",
 "C15": " No unguarded package-level state in hdkeychain (C15.shared).",
 "C16": " No unguarded package-level state behind the wrappers (C16.shared).",
 "C18": " No unguarded package-level state in txsort (C18.shared).",
 "C19": " No unguarded package-level state in coinset (C19.shared).",
 "C20": " No unguarded package-level state behind bloom.Filter and gcs.Filter (C20.shared).",
}
for k, v in ADDED6B.items():
    CHECKS[k]["text"] += v
ADDED7 = {
 "C01": " Round 7 and the syntactic mutation sweep: the hash-taking constructors accept exactly the specified lengths; NewAddressPubKey refuses on the parser's verdict only; the prefix setter stores its argument; the SLP constructors re-label every address they return; no constructor of the anchored files returns (nil, nil).",
 "C02": " Round 7: the separator search uses a sentinel that cannot collide with an index; decode arms are not shadowed by an earlier case.",
 "C03": " Round 7: a character outside the charset is refused, not mapped.",
 "C04": " Round 7 and sweep: NewMaster refuses seed lengths only outside 16..64 and on the documented conditions; the hardened-from-public guard covers every path; Address() hashes the compressed public key; Child never returns (nil, nil).",
 "C06": " Round 7: IsForNet's constant verdicts sit on the matching edges of the magic comparison.",
 "C07": " Sweep: bech32.Decode refuses a character only outside 33..126 and ConvertBits a group width only outside 1..8; what ConvertBits does after its last byte is decided over the finite domain (pad, pending count 0 / 1..4 / 5..7, pending bits zero / non-zero) and equals BIP173's rule at every point.",
 "C08": " Round 7: a result ignored together with its error is not used afterwards.",
 "C09": " Round 7 and sweep: the locked section covers the whole read-modify-write (C20's clauses); an unloaded filter answers false and a loaded filter with an empty bit array answers true, as constants on exactly those edges.",
 "C10": " Round 7 and sweep: the recursive re-check passes on the spender index and the matched set unchanged; a loop of the matcher is left early only on an edge where a membership test answered true; the pushes of one script are walked by a real loop.",
 "C11": " Round 7 and sweep: every path of the extraction helper consumes a flag bit before it looks at a hash; the flag bits are packed eight to a byte.",
 "C13": " Round 7 and sweep: BuildGCSFilter refuses P only above 32 and N only from 2^32; a query function answers the constant true only where a decoded value equals a query value (integer equality or positive index lookup); an inverted error test that returns nil with a nil error is refused.",
 "C14": " Sweep: the range reduction is proved equal to floor(v*(nHi*2^32+nLo)/2^64) by exact polynomial normalisation of its limb arithmetic over 32-bit digits and floor terms, no intermediate wrapping at 2^64; the fluent builder's SetP/SetM refuse only outside their ranges; an inverted error test in the serialisers / hash functions is refused. Round 7: the From* constructors refuse P / N only outside their ranges; the content loop of the block-filter builder is left only at exhaustion; every serialisation forwards the stored bytes.",
 "C15": " Round 7: Zero() wipes each field exactly once and leaves the struct unusable.",
 "C16": " Round 7: the index setter stores its argument; the accessor loop that wraps the transactions has no early exit.",
}
for k, v in ADDED7.items():
    CHECKS[k]["text"] += v
CHECKS["C08"]["text"] = CHECKS["C08"]["text"].replace("For all 73 in-repo functions", "For all in-repo functions").replace("(5 named exceptions, each with a premise the prover still checks)", "(named exceptions, each with a premise the prover still checks)")

CHECKS["C17"] = dict(
  technique="structural formula matching over go/ssa (each conversion is one prescribed IEEE operation on exactly converted operands), a finite decision of the rounding helper over the sign classes its dominating comparisons leave, must-pass-through rejection facts, a decision-tree walk of the unit-label function over the specified exponents, constant evaluation",
  text="Narrow by design: the SHAPE of the amount conversions, each clause a necessary condition of the statement. The rounding helper returns int(math.Round(f)) on every path - an exact rounding, half away from zero; the int(f+0.5)/int(f-0.5) forms are classified over the sign classes left by the comparisons that select each return (so a wrong threshold is reported with a witness) and refused in any case because the addition rounds a second time (defect F15, fixed); every accepting return of NewAmount is that helper applied to the single product f*1e8 and lies behind the rejection of NaN, +Inf and -Inf on every path; ToUnit is the single division float64(a)/math.Pow10(u+8) and ToBCH the same with u=0; Format is FormatFloat(ToUnit(u),'f',-(u+8),64)+\" \"+u.String() and String is Format(AmountBCH); the six named units have the specified exponents and labels and every other unit prints 1e<N> BCH; MulF64 rounds the single product float64(a)*f; SatoshiPerBitcent/SatoshiPerBitcoin/MaxSatoshi have the specified values; amount.go keeps no mutable package-level state. NOT decided (and not claimed): that one correctly rounded float64 operation yields the nearest satoshi, the exact decimal text or the exact round trip for every amount up to 2.1e15 - that is arithmetic over IEEE-754 values, outside this technique; monotonicity and odd symmetry as value-level statements (only their structural ingredient, the sign-symmetric helper, is decided).",
  note="Trusted: IEEE-754 correct rounding of float64 * and /; math.Pow10 exact for |n| <= 22; strconv.FormatFloat / FormatInt; math.IsNaN / IsInf / Round / Copysign. Added in round 5 after probing showed the suite accepts a rounding helper that tests f < -1, a two-step product f*1e4*1e4 and a dropped -Inf test (DESIGN.md §4, §3 C17); known_findings.json records F15.",
  ref="§3 C17, §4")

NA_REASON = {
}
props = [json.loads(l) for l in open(os.path.join(V, "properties.jsonl"))]
checks, na = [], []
for p in props:
    pid = p["id"]
    if pid in CHECKS and pid in impl:
        c = CHECKS[pid]
        checks.append({
            "property_id": pid,
            "quick_cmd": f"./run.sh {pid} quick",
            "thorough_cmd": f"./run.sh {pid} thorough",
            "evidence_file": f"evidence/{pid}.json",
            "replay_cmd_template": "bin/bchverif -replay {path}",
            "engine": "bchverif",
            "level_claimed": {"category": "other", "text": c["text"], "design_ref": c["ref"]},
            "level_note": c["note"],
            "technique": c["technique"],
        })
    else:
        na.append({"property_id": pid, "reason": NA_REASON.get(pid, "Static check designed (DESIGN.md §3) but not yet built in this tree; not claimed until it is.")})
m = {
 "version": 1,
 "setup_cmd": "cd /verif && export GOFLAGS=-mod=mod GOPROXY=off GOSUMDB=off GOTOOLCHAIN=local GOWORK=off && mkdir -p bin && (cd checker && go build -o ../bin/bchverif .) && (cd /repo && go build ./... )",
 "hooks": {"guard": "verif", "enable": "none needed: the checks read /repo's sources; no instrumentation is compiled in (the tag 'verif' is analysed as one extra build configuration in the thorough tier)",
           "baseline_off_cmd": "cd /repo && GOFLAGS=-mod=mod GOPROXY=off GOSUMDB=off go test -vet=off -count=1 ./...",
           "source_commits": [], "add_only": True},
 "engines": [{"name": "bchverif", "path": "checker/", "serves_properties": [c["property_id"] for c in checks],
              "kind_free_text": "custom static analyser over go/packages + go/ssa (x/tools v0.29.0): dominance path facts, lockset, origin/write-effect analysis, linear bounds prover, canonical-term comparison"}],
 "checks": checks,
 "not_applicable": na,
 "notes": "All checks are static: they load and type-check /repo's current working tree on every run and never execute repository code. Exit 1 + VIOLATION line on a violation not listed in known_findings.json; exit 2 only for checker self-validation failures in the thorough tier.",
}
json.dump(m, open(os.path.join(V, "MANIFEST.json"), "w"), indent=1)
print("checks:", [c["property_id"] for c in checks], "n/a:", len(na))

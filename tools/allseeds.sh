#!/bin/sh
# runs the self-validation seeds of every property that has any
cd "$(dirname "$0")/.." || exit 2
rc=0
# one private Go build cache for all helper-inlined views of this run (see checker/main.go viewCacheDir)
BCHVERIF_VIEWCACHE=$(mktemp -d /tmp/bchverif-gocache-XXXXXX); export BCHVERIF_VIEWCACHE
trap 'rm -rf "$BCHVERIF_VIEWCACHE"' EXIT
for d in seeds/*/; do
	p=$(basename "$d")
	out=$(bin/bchverif -prop "$p" -seeds-only -repo /repo -verif "$(pwd)")
	echo "$out" | awk -v p="$p" '{c[$1]++} END {printf "%s:", p; for (k in c) printf " %s=%d", k, c[k]; printf "\n"}'
	echo "$out" | grep -E "^(BLIND|FALSE-ALARM|skipped)" && rc=2
done
exit $rc

#!/usr/bin/env python3
"""usage: evalround.py <round dir, e.g. /tmp/r5-out> <round number> [-j N] [prop ...]
Runs tools/evalmutant.py for every <round dir>/<prop>/m<k> that has patch.diff + demo_test.go and no result.json yet;
writes result.json next to them and prints one line each."""
import json, os, subprocess, sys
from concurrent.futures import ThreadPoolExecutor
V = os.path.dirname(os.path.dirname(os.path.abspath(__file__)))
rd, rnd = sys.argv[1], sys.argv[2]
args = sys.argv[3:]
j = 4
if "-j" in args:
    i = args.index("-j"); j = int(args[i+1]); del args[i:i+2]
props = args or sorted(os.listdir(rd))
jobs = []
for p in props:
    for k in (1, 2, 3):
        d = os.path.join(rd, p, "m%d" % k)
        if os.path.exists(os.path.join(d, "patch.diff")) and os.path.exists(os.path.join(d, "demo_test.go")) and not os.path.exists(os.path.join(d, "result.json")):
            jobs.append((p, k, d))
def one(job):
    p, k, d = job
    r = subprocess.run([sys.executable, os.path.join(V, "tools/evalmutant.py"), p, d], capture_output=True, text=True)
    try:
        res = json.loads(r.stdout[r.stdout.index("{"):])
    except Exception:
        res = {"error": (r.stdout + r.stderr)[-500:]}
    json.dump(res, open(os.path.join(d, "result.json"), "w"), indent=1)
    return p, k, res
with ThreadPoolExecutor(j) as ex:
    for p, k, res in ex.map(one, jobs):
        print("%s m%d confirmed=%s caught=%s %s" % (p, k, res.get("confirmed"), res.get("caught"),
              "; ".join(v.split(": ", 1)[-1][:110] for v in res.get("check_violations", [])[:2]) or res.get("error", "")[:200]), flush=True)
